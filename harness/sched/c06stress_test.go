//go:build go1.25

package sched

// C06 stress part: deduplicated tasks whose several references arrive at the
// same instant on many cores, free-running (no gates): the window between
// looking an execution up and registering it is far below the granularity the
// gated driver controls, so it is sampled by repetition under real parallelism.

import (
	"context"
	"fmt"
	"os"
	"path/filepath"
	"runtime"
	"strings"
	"testing"

	"github.com/go-task/task/v3"
	"github.com/go-task/task/v3/verifh/h"
)

func TestC06Stress(t *testing.T) {
	out := os.Getenv("VERIF_E1_OUT")
	if os.Getenv("VERIF_E1_PROP") != "C06STRESS" || out == "" {
		t.Skip("driven by cmd/box")
	}
	part := h.NewPartial()
	work, _ := os.MkdirTemp(os.Getenv("VERIF_E1_WORK"), "c06s-")
	defer os.RemoveAll(work)
	nOnce, rounds := 200, h.Pick(8, 60)
	for round := 0; round < rounds; round++ {
		mode := []string{"once", "when_changed"}[round%2]
		var b strings.Builder
		b.WriteString("version: '3'\nsilent: true\ntasks:\n  all:\n    deps:\n")
		for k := 0; k < nOnce; k++ {
			for r := 0; r < 3; r++ {
				fmt.Fprintf(&b, "      - task: s%d\n        vars: {V: 'v%d'}\n", k, k)
			}
		}
		for k := 0; k < nOnce; k++ {
			fmt.Fprintf(&b, "  s%d:\n    run: %s\n    cmds:\n      - printf 'ran s%d {{.V}}\\n'\n", k, mode, k)
		}
		dir := filepath.Join(work, fmt.Sprintf("r%d", round))
		os.MkdirAll(dir, 0o755)
		os.WriteFile(filepath.Join(dir, "Taskfile.yml"), []byte(b.String()), 0o644)
		runtime.GOMAXPROCS([]int{16, 8, 4, 16}[round%4])
		rec, errw := &recorder{}, &recorder{}
		devnull, _ := os.Open(os.DevNull)
		e := task.NewExecutor(task.WithDir(dir), task.WithStdin(devnull), task.WithStdout(rec), task.WithStderr(errw), task.WithVersionCheck(false))
		if err := e.Setup(); err != nil {
			t.Fatal(err)
		}
		err := e.Run(context.Background(), &task.Call{Task: "all"})
		devnull.Close()
		counts := map[string]int{}
		lines := 0
		for _, l := range strings.Split(rec.String(), "\n") {
			if strings.HasPrefix(l, "ran ") {
				counts[strings.Fields(l)[1]]++
				lines++
			}
		}
		part.Count("stress_rounds", 1)
		part.Count("stress_executions_observed", int64(lines))
		part.Eval(fmt.Sprintf("stress/%s/round%d", mode, round), true)
		var dup, missing []string
		for k := 0; k < nOnce; k++ {
			name := fmt.Sprintf("s%d", k)
			if counts[name] > 1 {
				dup = append(dup, fmt.Sprintf("%s x%d", name, counts[name]))
			}
			if counts[name] == 0 {
				missing = append(missing, name)
			}
		}
		if err != nil {
			part.Inconc("stress round returned " + err.Error())
		} else if len(dup) > 0 {
			part.Violation("C06 | DUP | stress run="+mode, fmt.Sprintf("deduplicated tasks executed more than once when 3 references arrived together on %d procs: %v", runtime.GOMAXPROCS(0), firstN(dup, 8)),
				map[string]string{"project/Taskfile.yml": h.Truncate(b.String(), 20000), "case.json": fmt.Sprintf(`{"round": %d, "mode": %q, "duplicates": %q}`, round, mode, dup)})
		} else if len(missing) > 0 {
			part.Violation("C06 | MISSING | stress run="+mode, fmt.Sprintf("deduplicated tasks never executed: %v", firstN(missing, 8)), map[string]string{"project/Taskfile.yml": h.Truncate(b.String(), 20000)})
		}
		os.RemoveAll(dir)
	}
	runtime.GOMAXPROCS(runtime.NumCPU())
	if err := part.Save(out); err != nil {
		t.Fatal(err)
	}
}
