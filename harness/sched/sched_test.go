//go:build go1.25

// Package sched is engine E1: it runs the real task.Executor inside a
// testing/synctest bubble, gates every Write on the Executor's Stdout, and lets
// a driver choose which blocked command proceeds at every quiescent state while
// the reference model (package gen) checks every pending event online.
package sched

import (
	"context"
	"encoding/json"
	"fmt"
	"math/rand"
	"os"
	"path/filepath"
	"sort"
	"strconv"
	"strings"
	"sync"
	"testing"
	"testing/synctest"

	"github.com/go-task/task/v3"
	"github.com/go-task/task/v3/internal/verifhook"
	"github.com/go-task/task/v3/taskfile/ast"
	"github.com/go-task/task/v3/verifh/gen"
	"github.com/go-task/task/v3/verifh/h"
)

type pend struct {
	raw   string
	buf   []byte // the caller's slice: what a slow consumer reads while the Write is still in progress
	line  string
	ev    gen.Event
	isEv  bool
	pause string
	ch    chan struct{}
	seq   int
	seen  bool
}

func (p *pend) id() string {
	if p.isEv {
		return p.ev.ID()
	}
	if p.pause != "" {
		return "pause " + p.pause
	}
	return "raw " + p.line
}

type gate struct {
	mu      sync.Mutex
	pending []*pend
	seq     int
	free    bool // after the run: let everything through
}

func (g *gate) add(p *pend) {
	g.mu.Lock()
	g.seq++
	p.seq = g.seq
	free := g.free
	if !free {
		g.pending = append(g.pending, p)
	}
	g.mu.Unlock()
	if !free {
		<-p.ch
	}
}

func (g *gate) Write(b []byte) (int, error) {
	line := strings.TrimSuffix(string(b), "\n")
	p := &pend{raw: string(b), buf: b, line: line, ch: make(chan struct{})}
	p.ev, p.isEv = gen.ParseEvent(line)
	g.add(p)
	return len(b), nil
}

func (g *gate) snapshot() []*pend {
	g.mu.Lock()
	defer g.mu.Unlock()
	out := append([]*pend(nil), g.pending...)
	sort.Slice(out, func(i, j int) bool { return out[i].id() < out[j].id() })
	return out
}

func (g *gate) release(p *pend) {
	g.mu.Lock()
	for i, q := range g.pending {
		if q == p {
			g.pending = append(g.pending[:i], g.pending[i+1:]...)
			break
		}
	}
	g.mu.Unlock()
	close(p.ch)
}

type recorder struct {
	mu sync.Mutex
	b  strings.Builder
}

func (r *recorder) Write(b []byte) (int, error) {
	r.mu.Lock()
	defer r.mu.Unlock()
	if r.b.Len() < 1<<16 {
		r.b.Write(b)
	}
	return len(b), nil
}

func (r *recorder) String() string {
	r.mu.Lock()
	defer r.mu.Unlock()
	return r.b.String()
}

// strategy chooses the next pending event to release.
type strategy struct {
	name   string
	rng    *rand.Rand
	prio   map[string]float64
	change map[int]bool
	starve string
	forced []int // dfs prefix
	branch []int // dfs: branching factor seen at each step
	step   int
}

func classOf(p *pend) string {
	if p.isEv {
		return p.ev.P
	}
	return p.id()
}

func (s *strategy) choose(pending []*pend) int {
	defer func() { s.step++ }()
	n := len(pending)
	switch s.name {
	case "fifo", "lifo":
		best := 0
		for i, p := range pending {
			if (s.name == "fifo" && p.seq < pending[best].seq) || (s.name == "lifo" && p.seq > pending[best].seq) {
				best = i
			}
		}
		return best
	case "pct":
		if s.change[s.step] {
			// demote the current leader
			best, bv := "", -1.0
			for _, p := range pending {
				if v := s.p(classOf(p)); v > bv {
					best, bv = classOf(p), v
				}
			}
			s.prio[best] = s.rng.Float64() * 0.01
		}
		bi, bv := 0, -1.0
		for i, p := range pending {
			if v := s.p(classOf(p)); v > bv {
				bi, bv = i, v
			}
		}
		return bi
	case "starve":
		var ok []int
		for i, p := range pending {
			if !strings.Contains(p.id(), s.starve) {
				ok = append(ok, i)
			}
		}
		if len(ok) > 0 {
			return ok[s.rng.Intn(len(ok))]
		}
		return s.rng.Intn(n)
	case "dfs":
		s.branch = append(s.branch, n)
		if s.step < len(s.forced) {
			return s.forced[s.step] % n
		}
		return 0
	}
	return s.rng.Intn(n)
}

func (s *strategy) p(class string) float64 {
	if v, ok := s.prio[class]; ok {
		return v
	}
	v := 0.1 + s.rng.Float64()
	s.prio[class] = v
	return v
}

type runResult struct {
	history   []string
	viols     []gen.V
	maxPend   int
	states    int
	events    int
	pauses    int
	err       error
	stderr    string
	fatal     int
	guardFail bool
	instances int
	shared    int
	branch    []int
	diverged  bool
	deadlock  bool
}

type runOpts struct {
	pausePoints map[string]bool
	checkWork   bool
}

// runOnce executes one schedule of program p in a fresh bubble.
func runOnce(t *testing.T, p *gen.Prog, dir string, st *strategy, o runOpts, onDead func(*runResult)) *runResult {
	res := &runResult{}
	synctest.Test(t, func(t *testing.T) {
		g := &gate{}
		rec := &recorder{}
		devnull, _ := os.Open(os.DevNull)
		defer devnull.Close()
		if len(o.pausePoints) > 0 {
			verifhook.Set(func(point, detail string) {
				if !o.pausePoints[point] {
					return
				}
				if k := strings.LastIndexByte(detail, '/'); k >= 0 {
					detail = detail[k+1:] // dedup keys carry the absolute Taskfile path
				}
				g.add(&pend{pause: point + ":" + detail, ch: make(chan struct{})})
			})
			defer verifhook.Set(nil)
		}
		e := task.NewExecutor(
			task.WithDir(dir),
			task.WithStdin(devnull),
			task.WithStdout(g),
			task.WithStderr(rec),
			task.WithConcurrency(p.Conc),
			task.WithParallel(p.Parallel),
			task.WithAssumeYes(p.Yes),
			task.WithForce(p.Force),
			task.WithVersionCheck(false),
		)
		if err := e.Setup(); err != nil {
			res.err = fmt.Errorf("setup: %w", err)
			res.viols = append(res.viols, gen.V{Rule: "SETUP", Tags: "-", Props: []string{"ALL"}, What: "generated program did not load: " + err.Error()})
			return
		}
		var calls []*task.Call
		for _, r := range p.Roots {
			vars := ast.NewVars()
			rv := p.RootVars(r)
			for _, k := range []string{"P", "X", "Y", "RQ"} {
				if v, ok := rv[k]; ok {
					vars.Set(k, ast.Var{Value: v})
				}
			}
			calls = append(calls, &task.Call{Task: p.RootName(r), Vars: vars})
		}
		m := gen.NewModel(p)
		ctx, cancel := context.WithCancel(context.Background())
		defer cancel()
		done := make(chan error, 1)
		go func() { done <- e.Run(ctx, calls...) }()
		finished := false
		for !finished {
			synctest.Wait()
			select {
			case res.err = <-done:
				finished = true
			default:
			}
			pending := g.snapshot()
			if finished {
				break
			}
			res.states++
			if verbose {
				fmt.Printf("state %d pending=%v\n", res.states, ids(pending))
			}
			nEv := 0
			for _, pe := range pending {
				if pe.isEv {
					nEv++
				}
				if pe.seen {
					continue
				}
				pe.seen = true
				if pe.isEv {
					if v := m.Check(pe.ev); v != nil {
						res.viols = append(res.viols, *v)
						if verbose {
							fmt.Printf("  VIOL %s | %s: %s\n", v.Rule, v.Tags, v.What)
						}
					}
				} else if pe.pause == "" {
					res.viols = append(res.viols, gen.V{Rule: "UNEXP.output", Tags: "-", Props: []string{"C02"}, What: "unparsable output line: " + h.Truncate(pe.line, 200)})
				}
			}
			if nEv > res.maxPend {
				res.maxPend = nEv
			}
			if p.Conc > 0 && nEv > p.Conc {
				res.viols = append(res.viols, gen.V{Rule: "SLOT", Tags: fmt.Sprintf("N=%d", p.Conc), Props: []string{"C07"},
					What: fmt.Sprintf("%d commands executing at once with --concurrency %d: %v", nEv, p.Conc, ids(pending))})
			}
			if len(pending) == 0 {
				res.deadlock = true
				res.viols = append(res.viols, gen.V{Rule: "DEAD", Tags: fmt.Sprintf("N=%d", p.Conc), Props: []string{"C07"},
					What: "every goroutine is blocked, nothing is pending and Run has not returned; model expects next: " + fmt.Sprint(keys(m.Enabled()))})
				res.stderr = rec.String()
				if onDead != nil {
					onDead(res) // does not return: the bubble cannot be left with blocked goroutines
				}
				return
			}
			if o.checkWork && !m.FailureSeen && nEv == len(pending) {
				en := m.EnabledCommands()
				want := en
				if p.Conc > 0 && p.Conc < want {
					want = p.Conc
				}
				if nEv != want {
					res.viols = append(res.viols, gen.V{Rule: "WORK", Tags: fmt.Sprintf("N=%d", min(p.Conc, 9)), Props: []string{"C07"},
						What: fmt.Sprintf("%d commands executing, but %d are enabled and the limit is %d: pending=%v enabled=%v", nEv, en, p.Conc, ids(pending), keys(m.Enabled()))})
				}
			}
			k := st.choose(pending)
			pe := pending[k]
			if verbose {
				fmt.Printf("  release %s\n", pe.id())
			}
			res.history = append(res.history, pe.id())
			if pe.isEv {
				res.events++
				m.Step(pe.ev)
				if len(m.Viols) > 0 {
					res.viols = append(res.viols, m.Viols...)
					m.Viols = nil
				}
			} else if pe.pause != "" {
				res.pauses++
			}
			g.release(pe)
		}
		// stragglers: writes that arrive after Run returned
		g.mu.Lock()
		g.free = true
		left := append([]*pend(nil), g.pending...)
		g.pending = nil
		g.mu.Unlock()
		for _, pe := range left {
			if pe.isEv {
				res.viols = append(res.viols, gen.V{Rule: "LATE", Tags: "-", Props: []string{"C02", "C14"}, What: "command still writing after Run returned: " + pe.id()})
			}
			close(pe.ch)
		}
		res.viols = append(res.viols, m.End(res.err)...)
		res.stderr = rec.String()
		res.fatal = m.FatalFired
		res.guardFail = m.GuardFailed
		res.instances, res.shared = m.Stats()
		res.branch = st.branch
	})
	return res
}

func ids(ps []*pend) []string {
	var out []string
	for _, p := range ps {
		out = append(out, p.id())
	}
	return out
}

func keys(m map[string]bool) []string {
	var out []string
	for k := range m {
		out = append(out, k)
	}
	sort.Strings(out)
	return out
}

type propCfg struct {
	profiles  []string
	progs     int // programs per run (quick, thorough)
	scheds    int // random-family schedules per program
	dfsLimit  int // max schedules per program in dfs mode
	dfsEvents int // programs with at most this many events are enumerated by dfs
	checkWork bool
	pauses    bool
}

func cfgFor(prop string) propCfg {
	t := h.Thorough()
	pick := func(q, th int) int {
		if t {
			return th
		}
		return q
	}
	switch prop {
	case "C01":
		return propCfg{profiles: []string{"deps"}, progs: pick(260, 5000), scheds: 5, dfsLimit: pick(60, 300), dfsEvents: 9, pauses: true}
	case "C02":
		return propCfg{profiles: []string{"seq"}, progs: pick(260, 3000), scheds: 5, dfsLimit: pick(40, 200), dfsEvents: 9, pauses: true}
	case "C03":
		return propCfg{profiles: []string{"fail"}, progs: pick(260, 4000), scheds: 5, dfsLimit: pick(40, 200), dfsEvents: 9, pauses: true}
	case "C06":
		return propCfg{profiles: []string{"dedup"}, progs: pick(260, 4000), scheds: 5, dfsLimit: pick(40, 200), dfsEvents: 9, pauses: true}
	case "C07":
		return propCfg{profiles: []string{"conc", "conc", "conc-fail"}, progs: pick(330, 4000), scheds: 6, dfsLimit: pick(40, 200), dfsEvents: 10, checkWork: true}
	case "C13":
		return propCfg{profiles: []string{"guard"}, progs: pick(200, 3000), scheds: 3, dfsLimit: pick(20, 100), dfsEvents: 8, pauses: true}
	case "C14":
		return propCfg{profiles: []string{"defer"}, progs: pick(260, 4000), scheds: 5, dfsLimit: pick(40, 200), dfsEvents: 9, pauses: true}
	}
	return propCfg{profiles: []string{"deps"}, progs: 10, scheds: 2}
}

var (
	curCase  int
	verbose  = os.Getenv("VERIF_E1_VERBOSE") != ""
	onlyCase = os.Getenv("VERIF_E1_ONLY")
)

var allPauses = map[string]bool{"run.enter": true, "run.exit": true, "exec.wait": true, "exec.woke": true, "exec.registered": true}

func propNum(prop string) int64 {
	n, _ := strconv.Atoi(strings.TrimPrefix(prop, "C"))
	return int64(n)
}

// TestShard runs the cases of one shard and writes a partial result.
func TestShard(t *testing.T) {
	prop := os.Getenv("VERIF_E1_PROP")
	out := os.Getenv("VERIF_E1_OUT")
	if prop == "" || out == "" {
		t.Skip("driven by cmd/box")
	}
	shard, _ := strconv.Atoi(os.Getenv("VERIF_E1_SHARD"))
	nshards, _ := strconv.Atoi(os.Getenv("VERIF_E1_NSHARDS"))
	from, _ := strconv.Atoi(os.Getenv("VERIF_E1_FROM"))
	if nshards == 0 {
		nshards = 1
	}
	cfg := cfgFor(prop)
	if v := os.Getenv("VERIF_E1_PROGS"); v != "" {
		cfg.progs, _ = strconv.Atoi(v)
	}
	part := h.NewPartial()
	if from > 0 {
		if q, err := h.LoadPartial(out); err == nil {
			part = q
		}
	}
	work, err := os.MkdirTemp(os.Getenv("VERIF_E1_WORK"), "case-")
	if err != nil {
		t.Fatal(err)
	}
	defer os.RemoveAll(work)
	progress := os.Getenv("VERIF_E1_PROGRESS")
	for c := from; c < cfg.progs; c++ {
		if onlyCase != "" {
			if strconv.Itoa(c) != onlyCase {
				continue
			}
		} else if c%nshards != shard {
			continue
		}
		curCase = c
		if progress != "" {
			os.WriteFile(progress, []byte(strconv.Itoa(c)), 0o644)
		}
		runCase(t, prop, cfg, c, work, part, func(what string) {
			// the process is about to be abandoned (deadlocked bubble): save first
			part.Save(out)
			if progress != "" {
				os.WriteFile(progress, []byte(strconv.Itoa(c)+" "+what), 0o644)
			}
			os.Exit(3)
		})
		if c%20 == 0 {
			part.Save(out)
		}
	}
	if progress != "" {
		os.WriteFile(progress, []byte("done"), 0o644)
	}
	if err := part.Save(out); err != nil {
		t.Fatal(err)
	}
}

func progHash(files map[string]string, p *gen.Prog) string {
	var names []string
	for n := range files {
		names = append(names, n)
	}
	sort.Strings(names)
	parts := []string{fmt.Sprint(p.Conc, p.Parallel, p.Yes)}
	for _, r := range p.Roots {
		parts = append(parts, p.RootName(r), r.X)
	}
	for _, n := range names {
		parts = append(parts, n, files[n])
	}
	return h.Hash(parts...)
}

func runCase(t *testing.T, prop string, cfg propCfg, c int, work string, part *h.Partial, onDeadlock func(string)) {
	rng := h.Rng(propNum(prop), int64(c))
	profile := cfg.profiles[c%len(cfg.profiles)]
	p := gen.Generate(rng, profile)
	p.Seed = h.Seed()
	p.EnvX = os.Getenv("X")
	files := p.Render()
	dir := filepath.Join(work, fmt.Sprintf("c%d", c))
	os.RemoveAll(dir)
	os.MkdirAll(dir, 0o755)
	h.WriteTree(dir, files)
	defer os.RemoveAll(dir)
	ph := progHash(files, p)
	nev := gen.CountEvents(p)

	type sched struct {
		st *strategy
		o  runOpts
	}
	var plan []sched
	mk := func(name string, i int) *strategy {
		return &strategy{name: name, rng: h.Rng(propNum(prop), int64(c), int64(i)+100), prio: map[string]float64{}, change: map[int]bool{}}
	}
	usePause := func(i int) runOpts {
		o := runOpts{checkWork: cfg.checkWork}
		if cfg.pauses && i%2 == 1 {
			o.pausePoints = allPauses
		}
		return o
	}
	dfs := nev <= cfg.dfsEvents
	if dfs {
		// exhaustive enumeration of maximal choice sequences (bounded by dfsLimit)
		var forced []int
		count := 0
		for {
			st := mk("dfs", count)
			st.forced = forced
			r := execute(t, prop, p, files, dir, ph, st, runOpts{checkWork: cfg.checkWork}, part, onDeadlock)
			count++
			// next prefix: increment the last position that can still be incremented
			br := r.branch
			seq := make([]int, len(br))
			copy(seq, forced)
			for i := range seq {
				if seq[i] >= br[i] {
					seq[i] = br[i] - 1
				}
			}
			i := len(seq) - 1
			for i >= 0 && seq[i]+1 >= br[i] {
				i--
			}
			if i < 0 {
				part.Count("dfs_programs_exhausted", 1)
				break
			}
			seq[i]++
			forced = seq[:i+1]
			if count >= cfg.dfsLimit {
				part.Count("dfs_programs_truncated", 1)
				break
			}
		}
		part.Count("dfs_schedules", int64(count))
	}
	names := []string{"random", "pct", "lifo", "random", "pct", "fifo"}
	for i := 0; i < cfg.scheds; i++ {
		st := mk(names[i%len(names)], i)
		if st.name == "pct" {
			for d := 0; d < 2; d++ {
				st.change[st.rng.Intn(nev+2)] = true
			}
		}
		plan = append(plan, sched{st, usePause(i)})
	}
	// starve schedules: hold back the events of each deduplicated task, and of failing commands
	starved := 0
	for _, tk := range p.Tasks {
		if tk.Run != gen.Always && starved < 3 {
			st := mk("starve", 50+starved)
			st.starve = " " + tk.Name + "."
			plan = append(plan, sched{st, usePause(starved)})
			starved++
		}
	}
	for _, s := range plan {
		execute(t, prop, p, files, dir, ph, s.st, s.o, part, onDeadlock)
	}
}

func execute(t *testing.T, prop string, p *gen.Prog, files map[string]string, dir, ph string, st *strategy, o runOpts, part *h.Partial, onDeadlock func(string)) *runResult {
	record := func(r *runResult) {
		hist := strings.Join(r.history, "\n")
		sh := h.Hash(hist)
		part.Eval(ph+"/"+sh, r.maxPend >= 2)
		part.Count("schedules", 1)
		part.Count("events_observed", int64(r.events))
		part.Count("pause_points_taken", int64(r.pauses))
		part.Count("quiescent_states", int64(r.states))
		part.Max("pending_at_once", int64(r.maxPend))
		part.SetAdd("programs", ph)
		part.SetAdd("schedules", ph+"/"+sh)
		part.Count("strategy_"+st.name, 1)
		if r.fatal > 0 {
			part.Count("runs_with_fatal_failure", 1)
		}
		if r.guardFail {
			part.Count("runs_with_guard_failure", 1)
		}
		if r.shared > 0 {
			part.Count("runs_with_deduplicated_instances", 1)
		}
		if r.err != nil {
			part.Count("runs_returning_error", 1)
		}
		part.Sample(map[string]any{"program": p.Describe(), "strategy": st.name, "pauses": len(o.pausePoints) > 0, "history": firstN(r.history, 40), "error": errStr(r.err)}, 3)
		for _, v := range r.viols {
			mine := false
			for _, pr := range v.Props {
				if pr == prop || pr == "ALL" {
					mine = true
				}
			}
			if !mine {
				part.Count("violations_of_other_properties:"+v.Rule, 1)
				continue
			}
			caseJSON, _ := json.MarshalIndent(map[string]any{
				"property": prop, "case": curCase, "rule": v.Rule, "tags": v.Tags, "what": v.What,
				"seed": h.Seed(), "tier": h.Tier(), "profile": p.Profile, "program": p.Describe(),
				"roots": rootNames(p), "concurrency": p.Conc, "parallel": p.Parallel, "yes": p.Yes,
				"strategy": st.name, "pauses": len(o.pausePoints) > 0, "history": r.history, "run_error": errStr(r.err),
			}, "", " ")
			w := map[string]string{"case.json": string(caseJSON), "stderr.txt": r.stderr}
			for n, c := range files {
				w["project/"+n] = c
			}
			part.Violation(v.Sig(prop), v.What, w)
		}
	}
	r := runOnce(t, p, dir, st, o, func(r *runResult) {
		record(r)
		onDeadlock("deadlock")
	})
	record(r)
	return r
}

func rootNames(p *gen.Prog) []string {
	var out []string
	for _, r := range p.Roots {
		out = append(out, p.RootName(r))
	}
	return out
}

func firstN(s []string, n int) []string {
	if len(s) > n {
		return append(append([]string(nil), s[:n]...), fmt.Sprintf("…(+%d)", len(s)-n))
	}
	return s
}

func errStr(err error) string {
	if err == nil {
		return ""
	}
	return err.Error()
}
