//go:build go1.25

package sched

// C17: grouped output is driven under the E1 gate (every release order of the
// writes of simultaneously closing commands); prefixed output, which holds a
// sync.Mutex while writing and therefore cannot be gated inside a synctest
// bubble, runs free on all cores. Both are judged by a stream parser over the
// sequence of Writes that reached the Executor's Stdout.

import (
	"context"
	"encoding/json"
	"fmt"
	"math/rand"
	"os"
	"path/filepath"
	"runtime"
	"sort"
	"strconv"
	"strings"
	"sync"
	"testing"
	"testing/synctest"

	"github.com/go-task/task/v3"
	"github.com/go-task/task/v3/verifh/h"
)

type c17Chunk struct {
	Text   string
	Stderr bool
}

type c17Cmd struct {
	ID     string
	Chunks []c17Chunk
	Fail   bool
}

type c17Task struct {
	Name  string
	Cmds  []c17Cmd
	Calls []string // values of V with which the task is called in parallel ("" = called once, without V)
}

// inst replaces the call marker in a chunk text.
func c17Inst(text, v string) string { return strings.ReplaceAll(text, "@V@", v) }

type c17Prog struct {
	Tasks     []c17Task
	Mode      string // group | prefixed
	Begin     bool
	End       bool
	ErrorOnly bool
	Parallel  bool // --parallel roots instead of deps of one task
}

func shq(s string) string  { return "'" + strings.ReplaceAll(s, "'", `'\''`) + "'" }
func ymlq(s string) string { return "'" + strings.ReplaceAll(s, "'", "''") + "'" }

func (p *c17Prog) render() string {
	var b strings.Builder
	b.WriteString("version: '3'\nsilent: true\n")
	if p.Mode == "group" {
		b.WriteString("output:\n  group:\n")
		if p.Begin {
			b.WriteString("    begin: '<<B {{.TASK}}>>'\n")
		}
		if p.End {
			b.WriteString("    end: '<<E {{.TASK}}>>'\n")
		}
		if p.ErrorOnly {
			b.WriteString("    error_only: true\n")
		}
		if !p.Begin && !p.End && !p.ErrorOnly {
			b.Reset()
			b.WriteString("version: '3'\nsilent: true\noutput: group\n")
		}
	} else {
		b.WriteString("output: prefixed\n")
	}
	b.WriteString("tasks:\n  all:\n    deps:\n")
	for _, t := range p.Tasks {
		for _, v := range t.Calls {
			if v == "" {
				fmt.Fprintf(&b, "      - %s\n", t.Name)
			} else {
				fmt.Fprintf(&b, "      - task: %s\n        vars: {V: %s}\n", t.Name, v)
			}
		}
	}
	for _, t := range p.Tasks {
		fmt.Fprintf(&b, "  %s:\n    cmds:\n", t.Name)
		for _, c := range t.Cmds {
			var parts []string
			for _, ch := range c.Chunks {
				// the text holds no '%' or backslash; newlines travel as printf escapes (a literal
				// newline inside a YAML quoted scalar would be folded into a space)
				s := "printf " + shq(strings.ReplaceAll(strings.ReplaceAll(ch.Text, "\n", `\n`), "@V@", "{{.V}}"))
				if ch.Stderr {
					s += " >&2"
				}
				parts = append(parts, s)
			}
			if len(parts) == 0 {
				parts = append(parts, ":")
			}
			if c.Fail {
				parts = append(parts, "exit 3")
			}
			fmt.Fprintf(&b, "      - cmd: %s\n", ymlq(strings.Join(parts, "; ")))
			if c.Fail {
				b.WriteString("        ignore_error: true\n")
			}
		}
	}
	return b.String()
}

func c17Generate(rng *rand.Rand, mode string) *c17Prog {
	p := &c17Prog{Mode: mode}
	if mode == "group" {
		p.Begin, p.End, p.ErrorOnly = rng.Intn(3) > 0, rng.Intn(2) == 0, rng.Intn(3) == 0
	}
	p.Parallel = rng.Intn(3) == 0
	nt := 2 + rng.Intn(3)
	if mode == "prefixed" {
		nt = 2 + rng.Intn(6)
	}
	for i := 0; i < nt; i++ {
		t := c17Task{Name: fmt.Sprintf("t%d", i), Calls: []string{""}}
		if !p.Parallel && rng.Intn(3) == 0 {
			// the same task (hence the same prefix) called two or three times at once with different variables
			t.Calls = []string{"a", "b", "c"}[:2+rng.Intn(2)]
		}
		nc := 1 + rng.Intn(2)
		if mode == "prefixed" {
			nc = 1 + rng.Intn(3)
		}
		for j := 0; j < nc; j++ {
			c := c17Cmd{ID: fmt.Sprintf("%s.%d", t.Name, j), Fail: rng.Intn(4) == 0}
			n := rng.Intn(5)
			if mode == "prefixed" {
				n = rng.Intn(9)
			}
			for k := 0; k < n; k++ {
				text := fmt.Sprintf("%s#%d|", c.ID, k)
				if len(t.Calls) > 1 {
					text = fmt.Sprintf("%s@V@#%d|", c.ID, k)
				}
				switch rng.Intn(8) {
				case 0, 1, 2:
					text += "\n"
				case 3:
					text = "\n" // an empty line (or the end of a partial one)
				case 4:
					text += strings.Repeat("x", 1+rng.Intn(300)) + "|\n"
				case 5:
					if rng.Intn(6) == 0 {
						text += strings.Repeat("L", 70000) + "|\n" // > 64 KiB
					}
				}
				ch := c17Chunk{Text: text}
				c.Chunks = append(c.Chunks, ch)
			}
			// whole lines only on stderr: a stderr chunk must start at a line start and end a line
			atLineStart := true
			for k := range c.Chunks {
				if atLineStart && strings.HasSuffix(c.Chunks[k].Text, "\n") && c.Chunks[k].Text != "\n" && rng.Intn(4) == 0 {
					c.Chunks[k].Stderr = true
				}
				atLineStart = strings.HasSuffix(c.Chunks[k].Text, "\n")
			}
			t.Cmds = append(t.Cmds, c)
		}
		p.Tasks = append(p.Tasks, t)
	}
	return p
}

func (c *c17Cmd) body() string {
	var b strings.Builder
	for _, ch := range c.Chunks {
		b.WriteString(ch.Text)
	}
	return b.String()
}

// expectedBlocks: group mode, one block per command that wrote something (and failed, with error_only).
func (p *c17Prog) expectedBlocks() []string {
	var out []string
	for _, t := range p.Tasks {
		for _, v := range t.Calls {
			for _, c := range t.Cmds {
				body := c17Inst(c.body(), v)
				if body == "" || (p.ErrorOnly && !c.Fail) {
					continue
				}
				s := ""
				if p.Begin {
					s += "<<B " + t.Name + ">>\n"
				}
				s += body
				if p.End {
					s += "<<E " + t.Name + ">>\n"
				}
				out = append(out, s)
			}
		}
	}
	return out
}

// expectedLines: prefixed mode, every line each command wrote, with its task's prefix.
func (p *c17Prog) expectedLines() []string {
	var out []string
	for _, t := range p.Tasks {
		for _, v := range t.Calls {
			for _, c := range t.Cmds {
				body := c17Inst(c.body(), v)
				for body != "" {
					i := strings.IndexByte(body, '\n')
					var line string
					if i < 0 {
						line, body = body, ""
					} else {
						line, body = body[:i], body[i+1:]
					}
					out = append(out, "["+t.Name+"] "+line+"\n")
				}
			}
		}
	}
	return out
}

func (p *c17Prog) chunkTexts() []string {
	var out []string
	for _, t := range p.Tasks {
		for _, v := range t.Calls {
			for _, c := range t.Cmds {
				for _, ch := range c.Chunks {
					if strings.Contains(ch.Text, "#") {
						out = append(out, strings.TrimRight(c17Inst(ch.Text, v), "\n"))
					}
				}
			}
		}
	}
	return out
}

type c17Verdict struct{ rule, what string }

// judgeGroup parses the stream into the expected blocks.
func (p *c17Prog) judgeGroup(stream string) *c17Verdict {
	blocks := p.expectedBlocks()
	used := make([]bool, len(blocks))
	pos := 0
	for pos < len(stream) {
		best := -1
		for i, b := range blocks {
			if !used[i] && strings.HasPrefix(stream[pos:], b) && (best < 0 || len(b) > len(blocks[best])) {
				best = i
			}
		}
		if best < 0 {
			break
		}
		used[best] = true
		pos += len(blocks[best])
	}
	all := pos == len(stream)
	for _, u := range used {
		if !u {
			all = false
		}
	}
	if all {
		return nil
	}
	// classify by conservation of the self-describing chunks
	lost, dup := 0, 0
	shown := map[string]bool{}
	for _, t := range p.Tasks {
		for _, v := range t.Calls {
			for _, c := range t.Cmds {
				want := 1
				if c.body() == "" || (p.ErrorOnly && !c.Fail) {
					want = 0
				}
				for _, ch := range c.Chunks {
					if !strings.Contains(ch.Text, "#") {
						continue
					}
					key := strings.TrimRight(c17Inst(ch.Text, v), "\n")
					n := strings.Count(stream, key)
					if n < want {
						lost++
					}
					if n > want {
						dup++
						if want == 0 {
							shown[c.ID] = true
						}
					}
				}
			}
		}
	}
	switch {
	case len(shown) > 0:
		return &c17Verdict{"group.error_only-shown-for-success", fmt.Sprintf("with error_only the output of successful commands %v appeared", keysOf(shown))}
	case lost > 0 && p.ErrorOnly:
		return &c17Verdict{"group.error_only-missing-for-failure", "bytes of a failed command are missing from the stream"}
	case lost > 0:
		return &c17Verdict{"group.bytes-lost", fmt.Sprintf("%d chunk(s) missing from the stream", lost)}
	case dup > 0:
		return &c17Verdict{"group.bytes-duplicated", fmt.Sprintf("%d chunk(s) duplicated", dup)}
	}
	tag := "group.block-not-contiguous"
	if p.Begin {
		tag += "(begin-set)"
	} else if p.End {
		tag += "(end-set)"
	}
	return &c17Verdict{tag, "all bytes are present but a command's block (begin, body, end) is interleaved with another command's output at offset " + strconv.Itoa(pos)}
}

func keysOf(m map[string]bool) []string {
	var out []string
	for k := range m {
		out = append(out, k)
	}
	sort.Strings(out)
	return out
}

// judgePrefixed checks the recorded Writes: every line whole, exactly once, with its prefix.
func (p *c17Prog) judgePrefixed(writes []string) (*c17Verdict, bool) {
	stream := strings.Join(writes, "")
	want := map[string]int{}
	for _, l := range p.expectedLines() {
		want[l]++
	}
	got := map[string]int{}
	rest := stream
	mixed := false
	prevTask := ""
	for rest != "" {
		i := strings.IndexByte(rest, '\n')
		var line string
		if i < 0 {
			line, rest = rest, ""
		} else {
			line, rest = rest[:i+1], rest[i+1:]
		}
		got[line]++
		if j := strings.IndexByte(line, ']'); j > 0 {
			if prevTask != "" && prevTask != line[:j] {
				mixed = true
			}
			prevTask = line[:j]
		}
	}
	var missing, extra []string
	for l, n := range want {
		if got[l] < n {
			missing = append(missing, l)
		}
	}
	for l, n := range got {
		if want[l] < n {
			extra = append(extra, l)
		}
	}
	if len(missing) == 0 && len(extra) == 0 {
		return nil, mixed
	}
	sort.Strings(missing)
	sort.Strings(extra)
	// conservation of chunks tells torn from lost/duplicated
	lost, dup := 0, 0
	for _, c := range p.chunkTexts() {
		n := strings.Count(stream, c)
		if n == 0 {
			lost++
		}
		if n > 1 {
			dup++
		}
	}
	rule := "prefixed.line-torn-or-unprefixed"
	if lost > 0 {
		rule = "prefixed.bytes-lost"
	} else if dup > 0 {
		rule = "prefixed.bytes-duplicated"
	}
	return &c17Verdict{rule, fmt.Sprintf("missing lines %q, unexpected lines %q", trunc(missing), trunc(extra))}, mixed
}

func trunc(s []string) []string {
	var out []string
	for i, x := range s {
		if i >= 4 {
			out = append(out, fmt.Sprintf("…(+%d)", len(s)-4))
			break
		}
		out = append(out, h.Truncate(x, 120))
	}
	return out
}

type c17Run struct {
	writes   []string
	maxPend  int
	branch   []int
	err      error
	deadlock bool
}

func c17Executor(p *c17Prog, dir string, out, errw interface{ Write([]byte) (int, error) }, devnull *os.File) (*task.Executor, []*task.Call) {
	e := task.NewExecutor(
		task.WithDir(dir),
		task.WithStdin(devnull),
		task.WithStdout(out),
		task.WithStderr(errw),
		task.WithParallel(p.Parallel),
		task.WithVersionCheck(false),
		task.WithColor(false),
	)
	var calls []*task.Call
	if p.Parallel {
		for _, t := range p.Tasks {
			calls = append(calls, &task.Call{Task: t.Name})
		}
	} else {
		calls = []*task.Call{{Task: "all"}}
	}
	return e, calls
}

// c17Gated runs one release order of a group-mode program inside a bubble.
func c17Gated(t *testing.T, p *c17Prog, dir string, st *strategy) *c17Run {
	res := &c17Run{}
	synctest.Test(t, func(t *testing.T) {
		g := &gate{}
		rec := &recorder{}
		devnull, _ := os.Open(os.DevNull)
		defer devnull.Close()
		e, calls := c17Executor(p, dir, g, rec, devnull)
		if err := e.Setup(); err != nil {
			res.err = fmt.Errorf("setup: %w", err)
			return
		}
		done := make(chan error, 1)
		go func() { done <- e.Run(context.Background(), calls...) }()
		for {
			synctest.Wait()
			finished := false
			select {
			case res.err = <-done:
				finished = true
			default:
			}
			if finished {
				break
			}
			g.mu.Lock()
			pending := append([]*pend(nil), g.pending...)
			g.mu.Unlock()
			sort.Slice(pending, func(i, j int) bool { return pending[i].line < pending[j].line })
			if len(pending) == 0 {
				res.deadlock = true
				os.Exit(3)
			}
			if len(pending) > res.maxPend {
				res.maxPend = len(pending)
			}
			k := st.choose(pending)
			// the shared stream takes the bytes in when the Write completes, not when it was called: a block whose
			// buffer is reused while its Write is still pending comes out corrupted
			res.writes = append(res.writes, string(pending[k].buf))
			g.release(pending[k])
		}
		res.branch = st.branch
	})
	return res
}

type spinRecorder struct {
	mu     sync.Mutex
	writes []string
	rng    *rand.Rand
}

func (w *spinRecorder) spin() {
	w.mu.Lock()
	n := w.rng.Intn(40)
	w.mu.Unlock()
	for i := 0; i < n; i++ {
		runtime.Gosched()
	}
}

func (w *spinRecorder) Write(b []byte) (int, error) {
	w.spin()
	w.mu.Lock()
	w.writes = append(w.writes, string(b))
	w.mu.Unlock()
	w.spin()
	return len(b), nil
}

// c17Free runs a prefixed-mode program free on all cores.
func c17Free(p *c17Prog, dir string, rng *rand.Rand) *c17Run {
	res := &c17Run{}
	out := &spinRecorder{rng: rng}
	rec := &recorder{}
	devnull, _ := os.Open(os.DevNull)
	defer devnull.Close()
	e, calls := c17Executor(p, dir, out, rec, devnull)
	if err := e.Setup(); err != nil {
		res.err = fmt.Errorf("setup: %w", err)
		return res
	}
	res.err = e.Run(context.Background(), calls...)
	out.mu.Lock()
	res.writes = out.writes
	out.mu.Unlock()
	return res
}

func TestShardC17(t *testing.T) {
	out := os.Getenv("VERIF_E1_OUT")
	if os.Getenv("VERIF_E1_PROP") != "C17" || out == "" {
		t.Skip("driven by cmd/box")
	}
	shard, _ := strconv.Atoi(os.Getenv("VERIF_E1_SHARD"))
	nshards, _ := strconv.Atoi(os.Getenv("VERIF_E1_NSHARDS"))
	from, _ := strconv.Atoi(os.Getenv("VERIF_E1_FROM"))
	if nshards == 0 {
		nshards = 1
	}
	part := h.NewPartial()
	if from > 0 {
		if q, err := h.LoadPartial(out); err == nil {
			part = q
		}
	}
	progress := os.Getenv("VERIF_E1_PROGRESS")
	work, _ := os.MkdirTemp(os.Getenv("VERIF_E1_WORK"), "c17-")
	defer os.RemoveAll(work)
	nGroup, nPref := h.Pick(160, 1500), h.Pick(240, 1500)
	dfsLimit := h.Pick(24, 120)
	total := nGroup + nPref
	for c := from; c < total; c++ {
		if onlyCase != "" {
			if strconv.Itoa(c) != onlyCase {
				continue
			}
		} else if c%nshards != shard {
			continue
		}
		if progress != "" {
			os.WriteFile(progress, []byte(strconv.Itoa(c)), 0o644)
		}
		rng := h.Rng(17, int64(c))
		mode := "group"
		if c >= nGroup {
			mode = "prefixed"
		}
		p := c17Generate(rng, mode)
		dir := filepath.Join(work, fmt.Sprintf("c%d", c))
		os.MkdirAll(dir, 0o755)
		yml := p.render()
		os.WriteFile(filepath.Join(dir, "Taskfile.yml"), []byte(yml), 0o644)
		ph := h.Hash(yml, fmt.Sprint(p.Parallel))
		report := func(v *c17Verdict, writes []string, strat string) {
			cj, _ := json.MarshalIndent(map[string]any{"property": "C17", "case": c, "rule": v.rule, "what": v.what, "mode": p.Mode, "begin": p.Begin, "end": p.End,
				"error_only": p.ErrorOnly, "parallel_roots": p.Parallel, "strategy": strat, "writes": trunc200(writes), "seed": h.Seed(), "tier": h.Tier()}, "", " ")
			part.Violation("C17 | "+v.rule, v.what, map[string]string{"case.json": string(cj), "project/Taskfile.yml": yml})
		}
		if mode == "group" {
			var forced []int
			for count := 0; ; {
				st := &strategy{name: "dfs", rng: rng, forced: forced}
				if count > 0 && count%3 == 0 {
					st = &strategy{name: "random", rng: h.Rng(17, int64(c), int64(count))}
				}
				r := c17Gated(t, p, dir, st)
				count++
				stream := strings.Join(r.writes, "")
				part.Eval(ph+"/"+h.Hash(stream), r.maxPend >= 2)
				part.Count("group_runs", 1)
				part.Count("writes_observed", int64(len(r.writes)))
				part.Max("writes_pending_at_once", int64(r.maxPend))
				part.SetAdd("group_configs", fmt.Sprintf("begin=%v end=%v error_only=%v", p.Begin, p.End, p.ErrorOnly))
				if r.err != nil {
					part.Inconc("group run returned " + r.err.Error())
				} else if v := p.judgeGroup(stream); v != nil {
					report(v, r.writes, st.name)
				}
				if st.name != "dfs" {
					if count >= dfsLimit {
						break
					}
					continue
				}
				br := r.branch
				seq := make([]int, len(br))
				copy(seq, forced)
				for i := range seq {
					if seq[i] >= br[i] {
						seq[i] = br[i] - 1
					}
				}
				i := len(seq) - 1
				for i >= 0 && seq[i]+1 >= br[i] {
					i--
				}
				if i < 0 {
					part.Count("group_programs_all_orders_enumerated", 1)
					break
				}
				seq[i]++
				forced = seq[:i+1]
				if count >= dfsLimit {
					part.Count("group_programs_truncated", 1)
					break
				}
			}
			part.Sample(map[string]any{"mode": "group", "begin": p.Begin, "end": p.End, "error_only": p.ErrorOnly, "taskfile": h.Truncate(yml, 1500)}, 2)
		} else {
			reps := h.Pick(6, 8)
			for rep := 0; rep < reps; rep++ {
				runtime.GOMAXPROCS([]int{16, 4, 2, 16, 8, 16}[rep%6])
				r := c17Free(p, dir, h.Rng(17, int64(c), int64(rep)))
				part.Count("prefixed_runs", 1)
				part.Count("writes_observed", int64(len(r.writes)))
				v, mixed := p.judgePrefixed(r.writes)
				part.Eval(ph+"/"+h.Hash(strings.Join(r.writes, "\x00")), mixed)
				if mixed {
					part.Count("prefixed_runs_with_interleaved_tasks", 1)
				}
				if r.err != nil {
					part.Inconc("prefixed run returned " + r.err.Error())
				} else if v != nil {
					report(v, r.writes, "free-running")
				} else {
					// the four writes of a line must be contiguous: with an intact mutex the write
					// sequence itself (not only the byte stream) parses as [ prefix ] line
					if bad := c17WriteShape(r.writes); bad != "" {
						report(&c17Verdict{"prefixed.line-writes-not-contiguous", bad}, r.writes, "free-running")
					}
				}
			}
			runtime.GOMAXPROCS(runtime.NumCPU())
			part.Sample(map[string]any{"mode": "prefixed", "taskfile": h.Truncate(yml, 1500)}, 2)
		}
		os.RemoveAll(dir)
		if c%20 == 0 {
			part.Save(out)
		}
	}
	if progress != "" {
		os.WriteFile(progress, []byte("done"), 0o644)
	}
	if err := part.Save(out); err != nil {
		t.Fatal(err)
	}
}

func c17WriteShape(writes []string) string {
	for i := 0; i+3 < len(writes); i += 4 {
		if writes[i] != "[" || writes[i+2] != "] " || !strings.HasSuffix(writes[i+3], "\n") {
			return fmt.Sprintf("writes %d..%d are %q", i, i+3, trunc(writes[i:i+4]))
		}
	}
	return ""
}

func trunc200(w []string) []string {
	var out []string
	for i, x := range w {
		if i >= 200 {
			out = append(out, fmt.Sprintf("…(+%d writes)", len(w)-200))
			break
		}
		out = append(out, h.Truncate(x, 160))
	}
	return out
}
