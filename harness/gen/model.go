package gen

import (
	"fmt"
	"sort"
	"strings"
)

// Event is one probe line observed at the Executor's Stdout.
type Event struct {
	Kind byte   // 'B' begin of command, 'E' end of command, 'D' deferred command
	Cid  string // static command id: task.entry[.item]
	P    string // dynamic instance identity (call path or shared key)
	X    string // printed value of X ("-" if the task does not print it)
	Code string // D only: rendered {{.EXIT_CODE}}
}

func (e Event) ID() string { return string(e.Kind) + " " + e.Cid + " " + e.P }

// ParseEvent parses a probe line (without trailing newline).
func ParseEvent(line string) (Event, bool) {
	f := strings.Split(line, " ")
	if len(f) < 4 || len(f[0]) != 1 || !strings.ContainsAny(f[0], "BED") || !strings.HasPrefix(f[3], "x=") {
		return Event{}, false
	}
	ev := Event{Kind: f[0][0], Cid: f[1], P: f[2], X: f[3][2:]}
	if ev.Kind == 'D' {
		if len(f) != 5 || !strings.HasPrefix(f[4], "code=") {
			return Event{}, false
		}
		ev.Code = f[4][5:]
	} else if len(f) != 4 {
		return Event{}, false
	}
	return ev, true
}

const (
	phIdle = iota
	phDeps
	phEntries
	phDefers
	phDone
)

type ent struct {
	item   string // loop item ("" if the entry is not looped)
	e      *Entry
	idx    int // entry index in the task
	cid    string
	callee *Inst
	b, eok bool // B released, E (or D) released
	maybe  bool // defer whose registration is not certain (leading defer of an aborted task)
}

type refBy struct {
	parent *Inst
	how    string // root | dep | call | defer
}

// Inst is one execution instance of a task in the reference semantics.
type Inst struct {
	T      *Task
	P      string
	X      string
	Shared bool
	badRQ  bool // the creating reference passes a value that fails the task's requires/enum guard
	deps   []*Inst
	ents   []*ent
	refs   []refBy

	phase         int
	pc            int
	reg           []*ent
	dpc           int // index into reg of the defer currently running (counts down)
	failed        bool
	cause         string // own | dep | callee | guard:<kind> | abort
	causeBy       *Inst
	failCode      int
	sawEntry      bool // evidence that the command loop of this instance has started
	hadIgnored    bool // an ignored failing command occurred
	lateReported  bool
	claimedDead   string // a caller went on (ran its defers / let its own caller go on) as if this shared instance had finished
	codeUnsure    bool   // the failing command began after a cancellation may already have been in flight
	ignoredUnsure bool   // a failing command whose failure is ignored began while a cancellation may have been in flight: it may
	// have ended by cancellation (which is not ignorable), so whatever the task does after it is not certain
}

func (i *Inst) name() string { return i.T.Name + "@" + i.P }

// V is a violation found by the reference monitor.
type V struct {
	Rule  string   // e.g. PRE.dep, DOWN, DUP, DEFER.order, UNEXP, SLOT, DEAD, WORK, END.*
	Tags  string   // role tags completing the signature
	Props []string // properties the rule belongs to
	What  string
}

func (v V) Sig(prop string) string { return prop + " | " + v.Rule + " | " + v.Tags }

type Model struct {
	P     *Prog
	insts map[string]*Inst // task name + "\x00" + P
	order []*Inst          // creation order (deterministic iteration)
	roots []*Inst
	seen  map[string]bool // released event ids

	FailureSeen  bool // a fatal failure has fired (cancellation may be in flight)
	FatalFired   int
	GuardFailed  bool
	rootInternal bool
	Viols        []V
}

func NewModel(p *Prog) *Model {
	m := &Model{P: p, insts: map[string]*Inst{}, seen: map[string]bool{}}
	for _, r := range p.Roots {
		t := p.Tasks[r.Target]
		for _, g := range t.Guards {
			if g.Kind == "internal" {
				m.rootInternal = true
			}
		}
	}
	for _, r := range p.Roots {
		m.roots = append(m.roots, m.inst(nil, r, "", "root"))
	}
	m.settle()
	return m
}

func childP(parentP, parentX string, t *Task, r *Ref, item string) (string, string) {
	x := strings.ReplaceAll(r.X, "%ITEM%", item)
	x = strings.ReplaceAll(x, "{{.X}}", parentX)
	if t.Run == WhenChanged && t.XVia == "env" && !strings.Contains(x, ",") {
		x += "," // the identity of these tasks is the pair (X, Y); Y is empty here
	}
	switch t.Run {
	case Once:
		return SharedKey(t, ""), x
	case WhenChanged:
		return SharedKey(t, x), x
	}
	p := parentP + fmt.Sprintf(">r%d", r.ID)
	if item != "" {
		p += "." + item
	}
	if t.PFromX {
		// the callee of a "sub" when_changed task: its caller's rendered path carries no X (X reaches only the
		// sub-call's vars), the callee itself appends the X it received
		if k := strings.Index(parentP, "["); k >= 0 && strings.HasPrefix(parentP, "@") {
			p = parentP[:k] + strings.TrimPrefix(p, parentP)
		}
		p += "[" + x + "]"
	}
	return p, x
}

func (m *Model) inst(parent *Inst, r *Ref, item, how string) *Inst {
	t := m.P.Tasks[r.Target]
	pp, px := "", ""
	if parent != nil {
		pp, px = parent.P, parent.X
	}
	p, x := childP(pp, px, t, r, item)
	key := t.Name + "\x00" + p
	if i, ok := m.insts[key]; ok {
		i.refs = append(i.refs, refBy{parent, how})
		return i
	}
	i := &Inst{T: t, P: p, X: x, Shared: t.Run != Always, badRQ: r.BadRQ && t.Run == Always}
	i.refs = append(i.refs, refBy{parent, how})
	m.insts[key] = i
	m.order = append(m.order, i)
	return i
}

// expand creates the children of an instance (lazily, when it is reached).
func (m *Model) expand(i *Inst) {
	if i.ents != nil || i.deps != nil {
		return
	}
	for k, d := range i.T.Deps {
		items := []string{""}
		if l, ok := i.T.DepLoop[k]; ok {
			items = l
		}
		for _, it := range items {
			i.deps = append(i.deps, m.inst(i, d, it, "dep"))
		}
	}
	i.ents = []*ent{}
	for k, e := range i.T.Entries {
		if e.BadTmpl {
			continue // renders to nothing: no event, no effect
		}
		for _, it := range e.ItemsFor(i.X) {
			cid := Cid(i.T, k)
			if it != "" {
				cid += "." + it
			}
			en := &ent{e: e, idx: k, cid: cid, item: it}
			switch e.Kind {
			case Call:
				en.callee = m.inst(i, e.Ref, it, "call")
			case DeferCall:
				en.callee = m.inst(i, e.Ref, it, "defer")
			}
			i.ents = append(i.ents, en)
		}
	}
}

// guardFails is Task.GuardFails for one instance: a reference may pass a bad value for the
// variable a requires/enum guard checks although other references to the task pass a good one.
func (m *Model) guardFails(i *Inst) string {
	if g := i.T.GuardFails(m.P.Yes); g == "platform" || !i.badRQ {
		return g
	}
	for _, g := range i.T.Guards {
		if g.Kind == "requires" || g.Kind == "enum" {
			return g.Kind
		}
	}
	return i.T.GuardFails(m.P.Yes)
}

func (m *Model) fail(i *Inst, cause string, by *Inst) {
	if !i.failed {
		i.failed = true
		i.cause = cause
		i.causeBy = by
	}
}

// settle applies all silent transitions until a fixpoint is reached.
func (m *Model) settle() {
	if m.rootInternal {
		return
	}
	for changed := true; changed; {
		changed = false
		for k, r := range m.roots {
			if !m.P.Parallel && k > 0 {
				prev := m.roots[k-1]
				if prev.phase != phDone || prev.failed {
					break
				}
			}
			if m.reach(r) {
				changed = true
			}
			if m.advance(r, map[*Inst]bool{}) {
				changed = true
			}
		}
		// instances whose caller is already over (e.g. the other deps of a task one of
		// whose deps failed) keep running until they notice the cancellation
		for _, i := range m.order {
			if i.phase != phIdle && i.phase != phDone {
				if m.advance(i, map[*Inst]bool{}) {
					changed = true
				}
			}
		}
	}
}

func (m *Model) reach(i *Inst) bool {
	if i.phase != phIdle {
		return false
	}
	m.expand(i)
	i.phase = phDeps
	switch g := m.guardFails(i); g {
	case "platform":
		i.phase = phDone // skipped silently and successfully
	case "requires", "enum":
		m.fail(i, "guard:"+g, nil)
		i.phase = phDone
		m.FailureSeen, m.GuardFailed = true, true
	}
	return true
}

func (m *Model) advance(i *Inst, vis map[*Inst]bool) bool {
	if vis[i] || i.phase == phIdle || i.phase == phDone {
		return false
	}
	vis[i] = true
	changed := false
	for {
		switch i.phase {
		case phDeps:
			all := true
			for _, d := range i.deps {
				if m.reach(d) {
					changed = true
				}
				if m.advance(d, vis) {
					changed = true
				}
				if d.phase != phDone {
					all = false
				}
			}
			var failedDep *Inst
			for _, d := range i.deps {
				if d.phase == phDone && d.failed {
					failedDep = d
					break
				}
			}
			if failedDep != nil {
				m.fail(i, "dep", failedDep)
				i.phase = phDone
				changed = true
				return changed
			}
			if !all {
				return changed
			}
			if g := m.guardFails(i); g == "precondition" || g == "prompt" {
				m.fail(i, "guard:"+g, nil)
				i.phase = phDone
				m.FailureSeen, m.GuardFailed = true, true
				return true
			}
			i.phase = phEntries
			i.pc = 0
			changed = true
		case phEntries:
			if i.pc >= len(i.ents) {
				i.phase = phDefers
				i.dpc = len(i.reg) - 1
				changed = true
				continue
			}
			e := i.ents[i.pc]
			switch e.e.Kind {
			case DeferCmd, DeferCall:
				e.maybe = !i.sawEntry || i.ignoredUnsure
				i.reg = append(i.reg, e)
				i.pc++
				changed = true
			case Probe:
				if !e.b {
					return changed
				}
				if e.e.Exit != 0 {
					if e.e.IgnoreErr || i.T.IgnoreError {
						i.hadIgnored = true
						i.pc++
						changed = true
						continue
					}
					m.fail(i, "own", nil)
					i.failCode = e.e.Exit
					i.phase = phDefers
					i.dpc = len(i.reg) - 1
					changed = true
					continue
				}
				if !e.eok {
					return changed
				}
				i.pc++
				changed = true
			case Call:
				c := e.callee
				if m.reach(c) {
					changed = true
				}
				if m.advance(c, vis) {
					changed = true
				}
				if c.phase != phDone {
					return changed
				}
				if c.failed {
					if i.T.IgnoreError && exitRooted(c) {
						// task-level ignore_error covers a task-call command too when the callee's failure
						// is a command's exit status (interp.IsExitStatus sees through the wrapping)
						for o, n := c, 0; o != nil && n < 100; o, n = o.causeBy, n+1 {
							if o.codeUnsure {
								i.ignoredUnsure = true // the root failure may have been a cancellation after all
							}
						}
						i.hadIgnored = true
						i.pc++
						changed = true
						continue
					}
					m.fail(i, "callee", c)
					i.phase = phDefers
					i.dpc = len(i.reg) - 1
					changed = true
					continue
				}
				i.pc++
				changed = true
			}
		case phDefers:
			if i.dpc < 0 {
				i.phase = phDone
				return true
			}
			e := i.reg[i.dpc]
			if e.e.Kind == DeferCmd {
				if !e.eok {
					return changed
				}
				i.dpc--
				changed = true
				continue
			}
			c := e.callee
			if m.reach(c) {
				changed = true
			}
			if m.advance(c, vis) {
				changed = true
			}
			if c.phase != phDone {
				return changed
			}
			i.dpc--
			changed = true
		default:
			return changed
		}
	}
}

// exitRooted reports whether the failure of i is, at its root, a command that exited non-zero (as opposed
// to a guard, or a cancellation): only such failures are covered by the ignore_error of a calling task.
func exitRooted(i *Inst) bool {
	for n := 0; i != nil && n < 100; i, n = i.causeBy, n+1 {
		switch {
		case i.cause == "own":
			return true
		case i.cause == "dep" || i.cause == "callee":
			continue
		default:
			return false
		}
	}
	return false
}

type slot struct {
	i    *Inst
	e    *ent
	kind byte
	// abort path: instances that have to be wound down when this event is taken
	abortOf *Inst
	skip    int // number of maybe-registered defers skipped
}

func (m *Model) slotID(s slot) string {
	return string(s.kind) + " " + s.e.cid + " " + s.i.P
}

// front collects the normally enabled events below i.
func (m *Model) front(i *Inst, out map[string]slot, vis map[*Inst]bool) {
	if vis[i] {
		return
	}
	vis[i] = true
	switch i.phase {
	case phDeps:
		for _, d := range i.deps {
			m.front(d, out, vis)
		}
	case phEntries:
		if i.pc >= len(i.ents) {
			return
		}
		e := i.ents[i.pc]
		switch e.e.Kind {
		case Probe:
			if !e.b {
				s := slot{i: i, e: e, kind: 'B'}
				out[m.slotID(s)] = s
			} else if e.e.Exit == 0 && !e.eok {
				s := slot{i: i, e: e, kind: 'E'}
				out[m.slotID(s)] = s
			}
		case Call:
			m.front(e.callee, out, vis)
		}
	case phDefers:
		if i.dpc < 0 {
			return
		}
		e := i.reg[i.dpc]
		if e.e.Kind == DeferCmd {
			s := slot{i: i, e: e, kind: 'D'}
			out[m.slotID(s)] = s
		} else {
			m.front(e.callee, out, vis)
		}
	}
}

// allFront collects the normally enabled events of every running instance.
func (m *Model) allFront() map[string]slot {
	out := map[string]slot{}
	for _, i := range m.order {
		switch i.phase {
		case phEntries:
			if i.pc >= len(i.ents) {
				continue
			}
			e := i.ents[i.pc]
			if e.e.Kind != Probe {
				continue
			}
			if !e.b {
				s := slot{i: i, e: e, kind: 'B'}
				out[m.slotID(s)] = s
			} else if e.e.Exit == 0 && !e.eok {
				s := slot{i: i, e: e, kind: 'E'}
				out[m.slotID(s)] = s
			}
		case phDefers:
			if i.dpc < 0 {
				continue
			}
			if e := i.reg[i.dpc]; e.e.Kind == DeferCmd {
				s := slot{i: i, e: e, kind: 'D'}
				out[m.slotID(s)] = s
			}
		}
	}
	return out
}

// Enabled returns the ids of the events that may happen next without any
// cancellation being involved.
func (m *Model) Enabled() map[string]bool {
	out := m.allFront()
	res := map[string]bool{}
	for k := range out {
		res[k] = true
	}
	return res
}

// EnabledCommands counts the command instances that could be executing now:
// distinct (instance, entry) pairs among the enabled events.
func (m *Model) EnabledCommands() int {
	return len(m.allFront())
}

// peekFirst returns the first events of an instance that has not been reached
// yet (used for deferred task calls on the abort path).
func (m *Model) peekFirst(i *Inst, abortOf *Inst, skip int, out map[string]slot, depth int) {
	if depth > 20 {
		return
	}
	if i.phase != phIdle {
		// already running or done (shared): its own frontier
		tmp := map[string]slot{}
		m.front(i, tmp, map[*Inst]bool{})
		for k, s := range tmp {
			s.abortOf, s.skip = abortOf, skip
			out[k] = s
		}
		return
	}
	if g := m.guardFails(i); g != "" {
		return
	}
	m.expand(i)
	if len(i.deps) > 0 {
		for _, d := range i.deps {
			m.peekFirst(d, abortOf, skip, out, depth+1)
		}
		return
	}
	for _, e := range i.ents {
		switch e.e.Kind {
		case DeferCmd, DeferCall:
			continue
		case Probe:
			s := slot{i: i, e: e, kind: 'B', abortOf: abortOf, skip: skip}
			out[m.slotID(s)] = s
			return
		case Call:
			m.peekFirst(e.callee, abortOf, skip, out, depth+1)
			return
		}
	}
	// only defers: first event of the last one
	for k := len(i.ents) - 1; k >= 0; k-- {
		e := i.ents[k]
		if e.e.Kind == DeferCmd {
			s := slot{i: i, e: e, kind: 'D', abortOf: abortOf, skip: skip}
			out[m.slotID(s)] = s
			return
		}
	}
}

// ownDeferStart lists the events with which the defers of an aborted i may
// start. It returns true if i certainly has a defer to run first (a defer whose
// registration is certain and that produces events).
func (m *Model) ownDeferStart(i *Inst, out map[string]slot) bool {
	skip := 0
	for j := len(i.reg) - 1; j >= 0; j-- {
		e := i.reg[j]
		before := len(out)
		if e.e.Kind == DeferCmd {
			s := slot{i: i, e: e, kind: 'D', abortOf: i, skip: skip}
			if _, dup := out[m.slotID(s)]; !dup {
				out[m.slotID(s)] = s
			}
		} else {
			m.peekFirst(e.callee, i, skip, out, 0)
		}
		if !e.maybe && len(out) > before {
			return true
		}
		skip++
	}
	return false
}

// abortFront collects the events that may come next if i and everything below
// it is cancelled now. It returns true if i certainly has to emit one of them
// before its caller can go on.
func (m *Model) abortFront(i *Inst, out map[string]slot, vis map[*Inst]bool) bool {
	if vis[i] {
		return false
	}
	vis[i] = true
	switch i.phase {
	case phDeps:
		must := false
		for _, d := range i.deps {
			if m.abortFront(d, out, vis) {
				must = true
			}
		}
		return must
	case phEntries:
		if i.pc < len(i.ents) {
			e := i.ents[i.pc]
			if e.e.Kind == Call && e.callee.phase != phDone {
				if m.abortFront(e.callee, out, vis) {
					return true
				}
			}
		}
		return m.ownDeferStart(i, out)
	case phDefers:
		tmp := map[string]slot{}
		m.front(i, tmp, map[*Inst]bool{})
		for k, s := range tmp {
			out[k] = s
		}
		must := false
		for j := i.dpc; j >= 0; j-- {
			if !i.reg[j].maybe {
				must = true
			}
		}
		return must && len(tmp) > 0
	}
	return false
}

func (m *Model) abortEnabled() map[string]slot {
	out := map[string]slot{}
	if !m.FailureSeen {
		return out
	}
	for _, i := range m.order {
		if i.phase != phIdle && i.phase != phDone {
			m.abortFront(i, out, map[*Inst]bool{})
		}
	}
	return out
}

func (m *Model) find(ev Event) (*Inst, *ent) {
	tname := ev.Cid
	if k := strings.IndexByte(tname, '.'); k >= 0 {
		tname = tname[:k]
	}
	i := m.insts[tname+"\x00"+ev.P]
	if i == nil {
		return nil, nil
	}
	m.expandQuiet(i)
	for _, e := range i.ents {
		if e.cid == ev.Cid {
			return i, e
		}
	}
	return i, nil
}

func (m *Model) expandQuiet(i *Inst) { m.expand(i) }

func sharedTag(i *Inst) string {
	if i == nil || !i.Shared {
		return "plain"
	}
	return i.T.Run.String()
}

// Check decides whether ev may be pending/released now. It does not change
// the state. A nil result means the event is allowed.
func (m *Model) Check(ev Event) *V {
	if i, _ := m.find(ev); i != nil && i.claimedDead != "" && !m.seen[ev.ID()] {
		i.lateReported = true
		return m.lateShared(ev, i)
	}
	id := ev.ID()
	out := m.allFront()
	s, ok := out[id]
	if !ok {
		s, ok = m.abortEnabled()[id]
	}
	if ok {
		return m.payload(ev, s)
	}
	return m.diagnose(ev)
}

func (m *Model) lateShared(ev Event, i *Inst) *V {
	return &V{Rule: "PRE.callee", Tags: "caller-went-on-before-shared-" + i.T.Run.String() + "-finished", Props: []string{"C02", "C06", "C14", "C01"},
		What: fmt.Sprintf("%s: the deduplicated task %s is still executing although %s, i.e. a referrer returned before the single execution had finished", ev.ID(), i.name(), i.claimedDead)}
}

func (m *Model) payload(ev Event, s slot) *V {
	want := "-"
	if s.i.T.UsesX || (s.i.T.Run == WhenChanged && s.i.T.XVia == "env") {
		want = s.i.X
	}
	if want == "" && s.i.T.UsesX {
		want = m.P.EnvX // X was not passed: the task sees the process environment's X, if any
	}
	if s.e.e.AsX && s.i.T.UsesX {
		want = s.e.item // inside a loop whose iterator is called X
	}
	if ev.X != want {
		return &V{Rule: "PAYLOAD.var", Tags: "run=" + s.i.T.Run.String(), Props: []string{"C02", "C06"},
			What: fmt.Sprintf("%s printed X=%q, the call passed %q", ev.ID(), ev.X, want)}
	}
	if ev.Kind == 'D' && s.abortOf == nil && !s.i.hadIgnored && !s.i.codeUnsure {
		want := ""
		if s.i.cause == "own" {
			want = fmt.Sprint(s.i.failCode)
		} else if s.i.failed {
			return nil // failure came from a callee, a dep or cancellation: EXIT_CODE not constrained
		}
		if ev.Code != want {
			return &V{Rule: "PAYLOAD.exit_code", Tags: "cause=" + s.i.cause, Props: []string{"C14"},
				What: fmt.Sprintf("%s rendered EXIT_CODE=%q, expected %q", ev.ID(), ev.Code, want)}
		}
	}
	return nil
}

func (m *Model) diagnose(ev Event) *V {
	id := ev.ID()
	i, e := m.find(ev)
	if m.seen[id] {
		tag := "plain"
		if i != nil {
			tag = sharedTag(i)
		}
		return &V{Rule: "DUP", Tags: "run=" + tag, Props: []string{"C06", "C02", "C14"}, What: id + " occurred twice"}
	}
	if m.rootInternal {
		return &V{Rule: "GUARD.ran", Tags: "guard=internal", Props: []string{"C13"}, What: id + " ran although an internal task was named on the command line"}
	}
	if i == nil || e == nil {
		// unknown instance or command: wrong variables, a guarded-out task, an extra execution
		tname := ev.Cid
		if k := strings.IndexByte(tname, '.'); k >= 0 {
			tname = tname[:k]
		}
		for _, t := range m.P.Tasks {
			if t.Name == tname {
				if g := t.GuardFails(m.P.Yes); g != "" {
					return &V{Rule: "GUARD.ran", Tags: "guard=" + g, Props: []string{"C13"}, What: id + " ran although guard " + g + " excludes the task"}
				}
				return &V{Rule: "UNEXP.instance", Tags: "run=" + t.Run.String(), Props: []string{"C02", "C06"}, What: id + " does not belong to any instance of the program (wrong call variables or an extra execution)"}
			}
		}
		return &V{Rule: "UNEXP.task", Tags: "-", Props: []string{"C02"}, What: id + ": unknown task"}
	}
	if g := m.guardFails(i); g != "" {
		return &V{Rule: "GUARD.ran", Tags: "guard=" + g, Props: []string{"C13"}, What: id + " ran although guard " + g + " excludes the task"}
	}
	isDefer := e.e.Kind == DeferCmd
	switch i.phase {
	case phIdle:
		how, pph := "?", "?"
		if len(i.refs) > 0 {
			how = i.refs[0].how
			if p := i.refs[0].parent; p != nil {
				pph = [...]string{"idle", "deps", "entries", "defers", "done"}[p.phase]
				if p.failed {
					pph += "-failed:" + p.cause
				}
			}
		}
		props := []string{"C02"}
		if how == "dep" {
			props = []string{"C01", "C02"}
		}
		if how == "root" {
			for _, r := range m.roots {
				if r.phase == phDone && r.failed {
					pph = "after-root-failure"
					props = []string{"C03"}
				}
			}
		}
		if how == "defer" {
			props = []string{"C14"}
		}
		if i.Shared {
			props = append(props, "C06")
		}
		if strings.Contains(pph, "failed") {
			props = append(props, "C03")
		}
		return &V{Rule: "PRE.unreached", Tags: fmt.Sprintf("how=%s parent=%s run=%s", how, pph, sharedTag(i)), Props: props,
			What: id + " began although its referrer has not reached the reference yet"}
	case phDeps:
		var tags []string
		for _, d := range i.deps {
			if d.phase != phDone {
				tags = append(tags, "dep-running:"+sharedTag(d))
			}
		}
		sort.Strings(tags)
		props := []string{"C01"}
		if strings.Contains(strings.Join(tags, " "), "once") || strings.Contains(strings.Join(tags, " "), "when_changed") {
			props = append(props, "C06")
		}
		return &V{Rule: "PRE.dep", Tags: uniq(tags), Props: props, What: id + " began before all deps of " + i.name() + " finished"}
	case phEntries:
		if isDefer {
			return &V{Rule: "DEFER.early", Tags: "-", Props: []string{"C14"}, What: id + " ran while " + i.name() + " was still executing and nothing had failed"}
		}
		cur := i.ents[min(i.pc, len(i.ents)-1)]
		if e.idx < cur.idx || (e.idx == cur.idx && e.b) {
			return &V{Rule: "DUP", Tags: "run=" + sharedTag(i), Props: []string{"C06", "C02"}, What: id + " repeated"}
		}
		if ev.Kind == 'E' && e == cur && !e.b {
			return &V{Rule: "PRE.seq", Tags: "end-before-begin", Props: []string{"C02"}, What: id + " before its B"}
		}
		if cur.e.Kind == Call {
			props := []string{"C02"}
			if cur.callee.Shared {
				props = append(props, "C06")
			}
			return &V{Rule: "PRE.callee", Tags: "callee=" + sharedTag(cur.callee), Props: props,
				What: id + " began before the called task " + cur.callee.name() + " (with deps and defers) finished"}
		}
		return &V{Rule: "PRE.seq", Tags: "-", Props: []string{"C02"}, What: id + " began before the previous command " + cur.cid + " finished"}
	case phDefers, phDone:
		if isDefer {
			reg := false
			for _, r := range i.reg {
				if r == e {
					reg = true
				}
			}
			if !reg {
				return &V{Rule: "DEFER.unregistered", Tags: "cause=" + i.cause, Props: []string{"C14"}, What: id + " ran although the task stopped before reaching it"}
			}
			if e.eok {
				return &V{Rule: "DUP", Tags: "defer", Props: []string{"C14"}, What: id + " ran twice"}
			}
			return &V{Rule: "DEFER.order", Tags: "-", Props: []string{"C14"}, What: id + " ran out of reverse registration order (or before a later-registered defer finished)"}
		}
		if !i.failed {
			return &V{Rule: "DUP", Tags: "run=" + sharedTag(i) + " after-done", Props: []string{"C06", "C02"}, What: id + " after " + i.name() + " had finished"}
		}
		by := "plain"
		if i.causeBy != nil {
			by = sharedTag(i.causeBy)
		}
		props := []string{"C03"}
		switch i.cause {
		case "dep":
			props = append(props, "C01")
		case "callee":
			props = append(props, "C02")
		}
		if strings.HasPrefix(i.cause, "guard:") {
			props = []string{"C13"}
		}
		if i.causeBy != nil && strings.HasPrefix(i.causeBy.cause, "guard:") {
			props = append(props, "C13") // the caller / dependent of a guarded-out task must fail too
		}
		if by != "plain" {
			props = append(props, "C06")
		}
		return &V{Rule: "DOWN", Tags: fmt.Sprintf("cause=%s by=%s", i.cause, by), Props: props,
			What: fmt.Sprintf("%s began although %s had failed (%s)", id, i.name(), i.cause)}
	}
	return &V{Rule: "UNEXP", Tags: "-", Props: []string{"C02"}, What: id}
}

func uniq(s []string) string {
	var out []string
	for k, x := range s {
		if k == 0 || s[k-1] != x {
			out = append(out, x)
		}
	}
	if len(out) == 0 {
		return "-"
	}
	return strings.Join(out, ",")
}

func (m *Model) kill(i *Inst, vis map[*Inst]bool) {
	if i.Shared && i.phase != phDone && i.phase != phIdle && i.claimedDead == "" {
		// A caller of this deduplicated instance has gone on. Either the instance was cancelled and ended
		// silently (then it never emits another event), or the caller returned before the shared execution
		// finished — which any later event of the instance proves.
		i.claimedDead = "a caller's deferred commands (or its caller's) ran"
	}
	if vis[i] || i.phase == phDone || i.phase == phIdle || i.Shared {
		return
	}
	vis[i] = true
	for _, d := range i.deps {
		m.kill(d, vis)
	}
	if i.phase == phEntries && i.pc < len(i.ents) {
		if c := i.ents[i.pc].callee; c != nil {
			m.kill(c, vis)
		}
	}
	if i.phase == phDefers && i.dpc >= 0 {
		if c := i.reg[i.dpc].callee; c != nil {
			m.kill(c, vis)
		}
	}
	m.fail(i, "abort", nil)
	i.phase = phDone
}

// Step applies a released event. The event must have been accepted by Check
// (a rejected event is applied on a best-effort basis so monitoring can go on).
func (m *Model) Step(ev Event) {
	if i, _ := m.find(ev); i != nil && i.claimedDead != "" && !i.lateReported {
		i.lateReported = true
		m.Viols = append(m.Viols, *m.lateShared(ev, i))
	}
	id := ev.ID()
	out := m.allFront()
	s, ok := out[id]
	if !ok {
		s, ok = m.abortEnabled()[id]
		if ok && s.abortOf != nil {
			a := s.abortOf
			if a.phase == phEntries {
				if a.pc < len(a.ents) {
					if c := a.ents[a.pc].callee; c != nil && a.ents[a.pc].e.Kind == Call {
						m.kill(c, map[*Inst]bool{})
					}
				}
				m.fail(a, "abort", nil)
				a.phase = phDefers
				a.reg = a.reg[:len(a.reg)-s.skip]
				a.dpc = len(a.reg) - 1
			}
			m.settle()
			// the deferred callee may now have to be reached before its event applies
			s, ok = m.allFront()[id]
		}
	}
	m.seen[id] = true
	if !ok {
		// best effort: mark on the entry if it can be found
		if i, e := m.find(ev); i != nil && e != nil {
			switch ev.Kind {
			case 'B':
				e.b = true
			default:
				e.eok = true
			}
			i.sawEntry = true
		}
		m.settle()
		return
	}
	m.evidence(s.i, 0)
	switch ev.Kind {
	case 'B':
		s.e.b = true
		if s.e.e.Exit != 0 && !s.e.e.IgnoreErr && !s.i.T.IgnoreError {
			if m.FailureSeen {
				s.i.codeUnsure = true // cancelled commands end without an exit status of their own
			}
			m.FailureSeen = true
			m.FatalFired++
		}
		if s.e.e.Exit != 0 && (s.e.e.IgnoreErr || s.i.T.IgnoreError) && m.FailureSeen {
			s.i.ignoredUnsure = true
		}
	case 'E':
		s.e.eok = true
	case 'D':
		s.e.eok = true
	}
	m.settle()
}

// evidence records that the command loop of i has certainly started, and the
// same for the callers that are synchronously inside a plain (not deduplicated)
// call of i.
func (m *Model) evidence(i *Inst, depth int) {
	if depth > 50 {
		return
	}
	i.sawEntry = true
	for _, r := range i.reg {
		r.maybe = false
	}
	if i.Shared {
		return
	}
	for _, rb := range i.refs {
		p := rb.parent
		if p == nil {
			continue
		}
		switch {
		case rb.how == "call" && p.phase == phEntries && p.pc < len(p.ents) && p.ents[p.pc].callee == i:
			m.evidence(p, depth+1)
		case rb.how == "defer" && p.phase == phDefers && p.dpc >= 0 && p.reg[p.dpc].callee == i:
			m.evidence(p, depth+1)
		}
	}
}

// End performs the end-of-run checks. runErr is the error returned by Run.
func (m *Model) End(runErr error) []V {
	var vs []V
	anyFailure := m.FatalFired > 0 || m.GuardFailed || m.rootInternal
	// A failure only has to surface if it reaches a root: failures inside deferred calls or under
	// ignore_error are swallowed on purpose.
	var failedRoot *Inst
	allOK := !m.rootInternal
	for _, r := range m.roots {
		if r.phase == phDone && r.failed && failedRoot == nil {
			failedRoot = r
		}
		if r.phase != phDone || r.failed {
			allOK = false
		}
	}
	if (failedRoot != nil || m.rootInternal) && runErr == nil {
		tag := "guard"
		for o, n := failedRoot, 0; o != nil && n < 50; o, n = o.causeBy, n+1 {
			if o.cause == "own" {
				tag = "fatal-command"
			}
		}
		vs = append(vs, V{Rule: "END.err-nil", Tags: tag, Props: []string{"C03", "C13"}, What: "a non-ignored failure reached a task named on the command line but Run returned nil"})
	}
	if allOK && runErr != nil {
		vs = append(vs, V{Rule: "END.err", Tags: "-", Props: []string{"C03", "C07", "C02", "C14"}, What: "every task named on the command line completed in the model (failures, if any, were ignored or inside deferred calls) but Run returned: " + runErr.Error()})
	}
	if !anyFailure && !allOK {
		vs = append(vs, V{Rule: "END.missing", Tags: "-", Props: []string{"C07", "C06", "C02", "C14"},
			What: fmt.Sprintf("run ended without failure but expected events never happened: %v", m.missing())})
	}
	expectFail := anyFailure
	// every defer that was certainly registered must have run (C14), whatever stopped the task
	var notRun []string
	for _, i := range m.insts {
		if i.phase == phIdle {
			continue
		}
		for _, e := range i.reg {
			if e.maybe || e.eok {
				continue
			}
			if e.e.Kind == DeferCmd {
				notRun = append(notRun, "D "+e.cid+" "+i.P)
			} else if e.callee.phase == phIdle && m.guardFails(e.callee) == "" && m.emitsUnconditionally(e.callee, 0) {
				// (a deferred call whose callee first has to wait for deps may have run and ended silently,
				// e.g. because one of those deps had already failed: only a callee that certainly emits counts)
				notRun = append(notRun, "call "+e.cid+" "+i.P)
			}
		}
	}
	if len(notRun) > 0 {
		sort.Strings(notRun)
		vs = append(vs, V{Rule: "DEFER.missing", Tags: fmt.Sprintf("failure=%v", expectFail), Props: []string{"C14"},
			What: fmt.Sprintf("registered defers never ran: %v", notRun)})
	}
	return vs
}

// emitsUnconditionally reports whether an instance that has not started yet certainly produces an event
// as soon as it runs: no guard, no deps, and a first entry that is a command (or a call of such a task).
func (m *Model) emitsUnconditionally(i *Inst, depth int) bool {
	if depth > 10 || i.phase != phIdle || m.guardFails(i) != "" || len(i.T.Guards) > 0 {
		return false
	}
	m.expand(i)
	if len(i.deps) > 0 {
		return false
	}
	for _, e := range i.ents {
		switch e.e.Kind {
		case Probe:
			return true
		case Call:
			return e.callee.phase == phIdle && !e.callee.Shared && m.emitsUnconditionally(e.callee, depth+1)
		}
	}
	for _, e := range i.ents {
		if e.e.Kind == DeferCmd {
			return true
		}
	}
	return false
}

func (m *Model) missing() []string {
	var out []string
	for id := range m.Enabled() {
		out = append(out, id)
	}
	sort.Strings(out)
	if len(out) > 6 {
		out = out[:6]
	}
	return out
}

// Done reports whether every root has finished in the model.
func (m *Model) Done() bool {
	for _, r := range m.roots {
		if r.phase != phDone {
			return false
		}
	}
	return true
}

// Stats returns counts for evidence.
func (m *Model) Stats() (instances, shared int) {
	for _, i := range m.insts {
		if i.phase != phIdle {
			instances++
			if i.Shared {
				shared++
			}
		}
	}
	return
}
