// Package gen holds the intermediate representation of generated Taskfile
// programs, their YAML rendering, the seeded generator and the reference
// semantics (an executable model written from the documentation) used by the
// schedule-controlling engine E1 and the race engine E6.
package gen

import (
	"fmt"
	"sort"
	"strings"
)

type RunMode int

const (
	Always RunMode = iota
	Once
	WhenChanged
)

func (r RunMode) String() string { return [...]string{"always", "once", "when_changed"}[r] }

// Ref is a reference to a task (a dep, a task: entry, a deferred task call or
// a root call). ID is unique in the program and names the reference in the
// call path P.
type Ref struct {
	ID     int
	Target int    // task index
	X      string // value of the semantic variable X passed by this reference ("" = not passed)
	BadRQ  bool   // pass a value that fails the target's requires/enum guard (targets with run: always only)
}

type EntryKind int

const (
	Probe     EntryKind = iota // shell command: B line, E line (or exit N instead of E)
	Call                       // task: call
	DeferCmd                   // defer: shell command printing one D line
	DeferCall                  // defer: {task: ...}
)

type Entry struct {
	Kind      EntryKind
	Exit      int  // Probe: exit status (0 = success)
	IgnoreErr bool // Probe: command-level ignore_error
	DeferFail bool // DeferCmd: the deferred command exits 1 after its D line
	BadTmpl   bool // DeferCmd: the text has a template action that fails when rendered (index of an empty list): the entry renders to nothing and runs nothing, and must not disturb the other deferred entries
	Ref       *Ref // Call / DeferCall
	Loop      []string
	LoopVar   bool // render Loop as for: {var: LV<k>} over a task variable holding the items (split on spaces, or on ',' with split:)
	AsX       bool // (Probe loops over a variable only) the iterator is called X, like the variable the call passes: inside the loop {{.X}} is the item, after it the call's X again
	// Matrix, if non-nil, replaces Loop: ordered keys with their values; the loop body
	// receives "{{.ITEM.K1}}-{{.ITEM.K2}}" as its item text.
	Matrix    []MatrixRow
	MatrixRef bool // render the first row as ref: to a task variable
	// MatrixRefX: the referenced list is built from the call variable X ('{{.X}}<value>'), so two calls of
	// the task with different X must loop over different items
	MatrixRefX bool
	loopVarID  int
}

type MatrixRow struct {
	Key    string
	Values []string
}

// Guard kinds for C13.
type Guard struct {
	Kind string // platform | requires | enum | precondition | prompt | internal
	Pass bool
}

type Task struct {
	Name        string
	Run         RunMode
	IgnoreError bool
	Deps        []*Ref
	DepLoop     map[int][]string // dep index -> for-list (the dep is expanded per item)
	Entries     []*Entry
	Guards      []Guard
	UsesX       bool // probes print X
	// XVia says how X reaches the commands of a when_changed task: "" = in the command
	// text, "env" = only through the task's env: block, "sub" = only through the vars of
	// the task's own sub-calls (the task then has Call entries only).
	XVia string
	// PFromX: the task is the callee of a "sub" when_changed task: it extends the path it was given by the X
	// it was given (task vars: P: '{{.P}}[{{.X}}]'), so that its events identify the call of its caller
	PFromX bool
	File int // 0 = root Taskfile; k>0 = included file k (namespace "n<k>")
}

type Prog struct {
	Tasks    []*Task
	Roots    []*Ref
	Parallel bool
	Conc     int    // 0 = unlimited
	Output   string // "", "group", "prefixed"
	Yes      bool
	Force    bool
	Seed     int64
	Profile  string
	// EnvX is the value of the process environment variable X (a task that prints X without being
	// passed one sees it)
	EnvX string
	// TwoNS: file 1 is included under two namespaces (n1 and m1); refs with odd ID use m1.
	TwoNS bool
}

func (p *Prog) nsOf(file int, alt bool) string {
	if file == 0 {
		return ""
	}
	if alt && p.TwoNS && file == 1 {
		return "m1"
	}
	return fmt.Sprintf("n%d", file)
}

// CallName is the name by which a reference made from a task of file `from`
// names its target in the Taskfile text.
func (p *Prog) CallName(from int, r *Ref) string {
	t := p.Tasks[r.Target]
	if t.File == from {
		return t.Name
	}
	if from == 0 {
		return p.nsOf(t.File, r.ID%2 == 1) + ":" + t.Name
	}
	// from an included file to the root or a sibling include: root-anchored
	if t.File == 0 {
		return ":" + t.Name
	}
	return ":" + p.nsOf(t.File, r.ID%2 == 1) + ":" + t.Name
}

// RootVars are the variables the harness passes with a root call.
func (p *Prog) RootVars(r *Ref) map[string]string {
	t := p.Tasks[r.Target]
	vars := map[string]string{}
	if t.Run != WhenChanged {
		vars["P"] = fmt.Sprintf(">r%d", r.ID)
	}
	if r.X != "" {
		if t.Run == WhenChanged && t.XVia == "env" {
			xy := strings.SplitN(r.X+",", ",", 3)
			vars["X"], vars["Y"] = xy[0], xy[1]
		} else {
			vars["X"] = r.X
		}
	}
	if rq := t.RQFor(r); rq != "" {
		vars["RQ"] = rq
	}
	return vars
}

// RootName is the CLI name of a root reference.
func (p *Prog) RootName(r *Ref) string { return p.CallName(0, r) }

// SharedKey is the identity a deduplicated task resets P to.
func SharedKey(t *Task, x string) string {
	switch t.Run {
	case Once:
		return "@" + t.Name
	case WhenChanged:
		return "@" + t.Name + "[" + x + "]"
	}
	return ""
}

func yq(s string) string { return "'" + strings.ReplaceAll(s, "'", "''") + "'" }

func (p *Prog) refVars(from *Task, r *Ref, item string) string {
	t := p.Tasks[r.Target]
	var kv []string
	if t.Run != WhenChanged {
		suffix := fmt.Sprintf(">r%d", r.ID)
		if item != "" {
			suffix += "." + item
		}
		kv = append(kv, "P: "+yq("{{.P}}"+suffix))
	}
	if r.X != "" {
		x := r.X
		if item != "" {
			x = strings.ReplaceAll(x, "%ITEM%", item)
		}
		if t.Run == WhenChanged && t.XVia == "env" {
			// two variables that reach the callee only through its env: the identity is the pair
			xy := strings.SplitN(x+",", ",", 3)
			kv = append(kv, "X: "+yq(xy[0]), "Y: "+yq(xy[1]))
		} else {
			kv = append(kv, "X: "+yq(x))
		}
	}
	if rq := t.RQFor(r); rq != "" {
		kv = append(kv, "RQ: "+yq(rq))
	}
	if len(kv) == 0 {
		return ""
	}
	return "{" + strings.Join(kv, ", ") + "}"
}

// RQ is the value of the guard variable RQ that references to t pass ("" = not passed).
func (t *Task) RQ() string {
	for _, g := range t.Guards {
		switch g.Kind {
		case "requires":
			if g.Pass {
				return "good"
			}
			return ""
		case "enum":
			if g.Pass {
				return "fine"
			}
			return "bad"
		}
	}
	return ""
}

// RQFor is RQ for one reference (a reference may pass a failing value on purpose).
func (t *Task) RQFor(r *Ref) string {
	if r.BadRQ && t.Run == Always {
		for _, g := range t.Guards {
			switch g.Kind {
			case "requires":
				return ""
			case "enum":
				return "bad"
			}
		}
	}
	return t.RQ()
}

// GuardFails returns the kind of the first failing guard in evaluation order, or "".
func (t *Task) GuardFails(yes bool) string {
	order := []string{"platform", "requires", "enum", "precondition", "prompt"}
	for _, k := range order {
		for _, g := range t.Guards {
			if g.Kind != k {
				continue
			}
			if k == "prompt" {
				if !yes {
					return k
				}
				continue
			}
			if !g.Pass {
				return k
			}
		}
	}
	return ""
}

func forClause(e *Entry) (string, string) {
	if e.Matrix != nil {
		var rows []string
		var parts []string
		for i, r := range e.Matrix {
			if i == 0 && e.MatrixRef {
				rows = append(rows, fmt.Sprintf("%s: {ref: .MROW}", r.Key))
			} else {
				var vs []string
				for _, v := range r.Values {
					vs = append(vs, yq(v))
				}
				rows = append(rows, fmt.Sprintf("%s: [%s]", r.Key, strings.Join(vs, ", ")))
			}
			parts = append(parts, "{{.ITEM."+r.Key+"}}")
		}
		return "for: {matrix: {" + strings.Join(rows, ", ") + "}}", strings.Join(parts, "-")
	}
	if e.Loop != nil {
		if e.LoopVar {
			as, it := "", "{{.ITEM}}"
			if e.AsX {
				as, it = ", as: X", "{{.X}}"
			}
			if len(e.Loop)%2 == 0 {
				return fmt.Sprintf("for: {var: LV%d, split: ','%s}", e.loopVarID, as), it
			}
			return fmt.Sprintf("for: {var: LV%d%s}", e.loopVarID, as), it
		}
		var vs []string
		for _, v := range e.Loop {
			vs = append(vs, yq(v))
		}
		return "for: [" + strings.Join(vs, ", ") + "]", "{{.ITEM}}"
	}
	return "", ""
}

// Items returns the expanded loop items of an entry in documented order
// (list order; matrix: row-major, first key slowest), or [""] if not looped.
func (e *Entry) Items() []string { return e.ItemsFor("") }

// ItemsFor is Items for an instance called with the given X.
func (e *Entry) ItemsFor(x string) []string {
	if e.Matrix != nil {
		items := []string{""}
		for ri, r := range e.Matrix {
			var next []string
			for _, pre := range items {
				for _, v := range r.Values {
					if ri == 0 && e.MatrixRef && e.MatrixRefX {
						v = x + v
					}
					if pre == "" {
						next = append(next, v)
					} else {
						next = append(next, pre+"-"+v)
					}
				}
			}
			items = next
		}
		return items
	}
	if e.Loop != nil {
		return e.Loop
	}
	return []string{""}
}

// Cid is the static id of entry k of task t (loop item appended by the template).
func Cid(t *Task, k int) string { return fmt.Sprintf("%s.%d", t.Name, k) }

func probeLine(kind, cid, item string, t *Task) string {
	if item != "" {
		cid += "." + item
	}
	x := "-"
	if t.UsesX {
		x = "{{.X}}"
	}
	pv := "{{.P}}"
	if t.Run == WhenChanged && t.XVia == "env" {
		pv = "{{.P}}[$XE,$YE]"
		x = "$XE,$YE"
	}
	return fmt.Sprintf(`printf '%s %s %%s x=%%s\n' "%s" "%s"`, kind, cid, pv, x)
}

// Render produces the Taskfile texts: file name -> content.
func (p *Prog) Render() map[string]string {
	files := map[string]string{}
	nfiles := 0
	for _, t := range p.Tasks {
		if t.File > nfiles {
			nfiles = t.File
		}
	}
	for f := 0; f <= nfiles; f++ {
		var b strings.Builder
		b.WriteString("version: '3'\n")
		if f == 0 {
			b.WriteString("silent: true\n")
			switch p.Output {
			case "group":
				b.WriteString("output: group\n")
			case "prefixed":
				b.WriteString("output: prefixed\n")
			}
			if nfiles > 0 {
				b.WriteString("includes:\n")
				for k := 1; k <= nfiles; k++ {
					fmt.Fprintf(&b, "  n%d: ./inc%d.yml\n", k, k)
				}
				if p.TwoNS {
					b.WriteString("  m1: ./inc1.yml\n")
				}
			}
		}
		b.WriteString("tasks:\n")
		for _, t := range p.Tasks {
			if t.File != f {
				continue
			}
			p.renderTask(&b, t)
		}
		name := "Taskfile.yml"
		if f > 0 {
			name = fmt.Sprintf("inc%d.yml", f)
		}
		files[name] = b.String()
	}
	return files
}

func (p *Prog) renderTask(b *strings.Builder, t *Task) {
	fmt.Fprintf(b, "  %s:\n", yq(t.Name))
	if t.Run != Always {
		fmt.Fprintf(b, "    run: %s\n", t.Run)
	}
	if t.IgnoreError {
		b.WriteString("    ignore_error: true\n")
	}
	var vars []string
	switch t.Run {
	case Once:
		vars = append(vars, "P: "+yq(SharedKey(t, "")))
	case WhenChanged:
		if t.XVia == "env" || t.XVia == "sub" {
			// no X in the task's own variables: it reaches the commands only through env / the sub-call's vars
			vars = append(vars, "P: "+yq("@"+t.Name))
		} else {
			vars = append(vars, "P: "+yq("@"+t.Name+"[{{.X}}]"))
		}
	}
	if t.PFromX {
		vars = append(vars, "P: "+yq("{{.P}}[{{.X}}]"))
	}
	needMRow := false
	for _, e := range t.Entries {
		if e.MatrixRef {
			needMRow = true
		}
	}
	if needMRow {
		for _, e := range t.Entries {
			if e.MatrixRef {
				var vs []string
				for _, v := range e.Matrix[0].Values {
					if e.MatrixRefX {
						v = "{{.X}}" + v
					}
					vs = append(vs, yq(v))
				}
				vars = append(vars, "MROW: ["+strings.Join(vs, ", ")+"]")
				break
			}
		}
	}
	for k, e := range t.Entries {
		if e.LoopVar && e.Loop != nil {
			e.loopVarID = k
			sep := " "
			if len(e.Loop)%2 == 0 {
				sep = ","
			}
			vars = append(vars, fmt.Sprintf("LV%d: %s", k, yq(strings.Join(e.Loop, sep))))
		}
	}
	for _, g := range t.Guards {
		switch g.Kind {
		case "internal":
			b.WriteString("    internal: true\n")
		case "platform":
			if g.Pass {
				b.WriteString("    platforms: [linux]\n")
			} else {
				b.WriteString("    platforms: [windows, plan9/arm64]\n")
			}
		case "requires":
			b.WriteString("    requires:\n      vars: [RQ]\n")
		case "enum":
			b.WriteString("    requires:\n      vars:\n        - name: RQ\n          enum: [good, fine]\n")
		case "precondition":
			if g.Pass {
				b.WriteString("    preconditions:\n      - sh: 'test 1 = 1'\n        msg: pre-ok\n")
			} else {
				b.WriteString("    preconditions:\n      - sh: 'test 1 = 2'\n        msg: pre-failed\n")
			}
		case "prompt":
			fmt.Fprintf(b, "    prompt: 'PROMPT %s?'\n", t.Name)
		}
	}
	if len(vars) > 0 {
		b.WriteString("    vars:\n")
		for _, v := range vars {
			fmt.Fprintf(b, "      %s\n", v)
		}
	}
	if t.Run == WhenChanged && t.XVia == "env" {
		b.WriteString("    env:\n      XE: '{{.X}}'\n      YE: '{{.Y}}'\n")
	}
	if len(t.Deps) > 0 {
		b.WriteString("    deps:\n")
		for i, d := range t.Deps {
			name := p.CallName(t.File, d)
			if items, ok := t.DepLoop[i]; ok {
				var vs []string
				for _, v := range items {
					vs = append(vs, yq(v))
				}
				fmt.Fprintf(b, "      - for: [%s]\n        task: %s\n", strings.Join(vs, ", "), yq(name))
				if v := p.refVars(t, d, "{{.ITEM}}"); v != "" {
					fmt.Fprintf(b, "        vars: %s\n", v)
				}
				continue
			}
			fmt.Fprintf(b, "      - task: %s\n", yq(name))
			if v := p.refVars(t, d, ""); v != "" {
				fmt.Fprintf(b, "        vars: %s\n", v)
			}
		}
	}
	if len(t.Entries) > 0 {
		b.WriteString("    cmds:\n")
	}
	for k, e := range t.Entries {
		cid := Cid(t, k)
		forc, item := forClause(e)
		switch e.Kind {
		case Probe:
			cmd := probeLine("B", cid, item, t)
			if e.Exit != 0 {
				cmd += fmt.Sprintf("; exit %d", e.Exit)
			} else {
				cmd += "; " + probeLine("E", cid, item, t)
			}
			if forc != "" {
				fmt.Fprintf(b, "      - %s\n        cmd: %s\n", forc, yq(cmd))
			} else {
				fmt.Fprintf(b, "      - cmd: %s\n", yq(cmd))
			}
			if e.IgnoreErr {
				b.WriteString("        ignore_error: true\n")
			}
		case Call:
			name := p.CallName(t.File, e.Ref)
			if forc != "" {
				fmt.Fprintf(b, "      - %s\n        task: %s\n", forc, yq(name))
			} else {
				fmt.Fprintf(b, "      - task: %s\n", yq(name))
			}
			if v := p.refVars(t, e.Ref, item); v != "" {
				fmt.Fprintf(b, "        vars: %s\n", v)
			}
		case DeferCmd:
			x := "-"
			if t.UsesX {
				x = "{{.X}}"
			}
			cmd := fmt.Sprintf(`printf 'D %s %%s x=%%s code=%%s\n' "{{.P}}" "%s" "{{.EXIT_CODE}}"`, cid, x)
			if e.DeferFail {
				cmd += "; exit 1"
			}
			if e.BadTmpl {
				cmd += " {{index .NOSUCHLIST 0}}"
			}
			fmt.Fprintf(b, "      - defer: %s\n", yq(cmd))
		case DeferCall:
			name := p.CallName(t.File, e.Ref)
			fmt.Fprintf(b, "      - defer:\n          task: %s\n", yq(name))
			if v := p.refVars(t, e.Ref, ""); v != "" {
				fmt.Fprintf(b, "          vars: %s\n", v)
			}
		}
	}
}

// Describe is a compact one-line description used in samples.
func (p *Prog) Describe() string {
	var parts []string
	for _, t := range p.Tasks {
		s := t.Name
		if t.Run != Always {
			s += "/" + t.Run.String()
		}
		if t.IgnoreError {
			s += "/ign"
		}
		if len(t.Deps) > 0 {
			var ds []string
			for _, d := range t.Deps {
				ds = append(ds, p.Tasks[d.Target].Name)
			}
			s += " deps=" + strings.Join(ds, ",")
		}
		var es []string
		for _, e := range t.Entries {
			switch e.Kind {
			case Probe:
				x := "p"
				if e.Exit != 0 {
					x = fmt.Sprintf("fail%d", e.Exit)
					if e.IgnoreErr {
						x += "i"
					}
				}
				if n := len(e.Items()); n > 1 {
					x += fmt.Sprintf("x%d", n)
				}
				es = append(es, x)
			case Call:
				x := "->" + p.Tasks[e.Ref.Target].Name
				if n := len(e.Items()); n > 1 {
					x += fmt.Sprintf("x%d", n)
				}
				es = append(es, x)
			case DeferCmd:
				es = append(es, "defer")
			case DeferCall:
				es = append(es, "defer->"+p.Tasks[e.Ref.Target].Name)
			}
		}
		if len(es) > 0 {
			s += " [" + strings.Join(es, " ") + "]"
		}
		for _, g := range t.Guards {
			s += fmt.Sprintf(" guard:%s=%v", g.Kind, g.Pass)
		}
		parts = append(parts, s)
	}
	var roots []string
	for _, r := range p.Roots {
		roots = append(roots, p.RootName(r))
	}
	sort.Strings(nil)
	return fmt.Sprintf("roots=%v parallel=%v N=%d out=%q | %s", roots, p.Parallel, p.Conc, p.Output, strings.Join(parts, " ; "))
}
