package gen

import (
	"fmt"
	"math/rand"
)

// Knobs select the features a generated program may use. Each property's
// profile switches on only what its oracle judges crisply.
type Knobs struct {
	MinTasks, MaxTasks  int
	MaxDeps, MaxEntries int
	PDep, PCall         float64
	PFail               float64 // probability that a probe fails
	MaxFails            int
	PIgnoreCmd          float64
	PIgnoreTask         float64
	POnce, PWC          float64
	PLoop, PMatrix      float64
	PDepLoop            float64
	PDefer, PDeferCall  float64
	PDeferFail          float64
	PGuard              float64
	PGuardFail          float64
	Includes            bool
	XVariants           bool // when_changed tasks whose X reaches only env / sub-call vars
	Conc                []int
	PParallel           float64
	MaxRoots            int
	MaxEvents           int
	PUsesX              float64
	PSkeleton           float64 // probability of a hand-shaped scenario skeleton instead of a random graph
}

// Profiles by name.
func Profile(name string) Knobs {
	base := Knobs{MinTasks: 3, MaxTasks: 7, MaxDeps: 3, MaxEntries: 3, PDep: 0.45, PCall: 0.3,
		Conc: []int{0, 0, 1, 2, 3}, PParallel: 0.3, MaxRoots: 2, MaxEvents: 40, PUsesX: 0.3, POnce: 0.2, PWC: 0.1}
	switch name {
	case "deps": // C01
		k := base
		k.PSkeleton = 0.2
		k.PDep, k.POnce, k.PWC = 0.6, 0.3, 0.15
		k.PFail, k.MaxFails = 0.12, 2
		k.PDefer, k.PDeferCall = 0.1, 0.05
		k.PDepLoop = 0.15
		k.Includes = true
		return k
	case "seq": // C02
		k := base
		k.PSkeleton = 0.2
		k.MaxEntries, k.PCall = 5, 0.45
		k.PLoop, k.PMatrix, k.PDepLoop = 0.3, 0.25, 0.1
		k.PDefer, k.PDeferCall = 0.15, 0.1
		k.PUsesX = 0.6
		k.MaxEvents = 60
		return k
	case "fail": // C03
		k := base
		k.PSkeleton = 0.2
		k.PFail, k.MaxFails = 0.25, 3
		k.PIgnoreCmd, k.PIgnoreTask = 0.3, 0.15
		k.POnce = 0.3
		k.PDefer = 0.1
		return k
	case "dedup": // C06
		k := base
		k.PSkeleton = 0.2
		k.POnce, k.PWC = 0.35, 0.35
		k.PDep, k.PCall = 0.55, 0.4
		k.PFail, k.MaxFails = 0.15, 2
		k.Includes = true
		k.XVariants = true
		k.PUsesX = 0.5
		k.MaxRoots = 3
		return k
	case "conc": // C07 (failure free, no guards)
		k := base
		k.MinTasks, k.MaxTasks, k.MaxDeps = 4, 9, 5
		k.PDep = 0.6
		k.POnce, k.PWC = 0.25, 0.1
		k.Conc = []int{1, 1, 2, 2, 3, 5, 0}
		k.PDepLoop, k.PLoop = 0.2, 0.15
		k.PDefer, k.PDeferCall = 0.1, 0.08
		k.MaxEvents = 70
		return k
	case "conc-fail": // C07 with failing commands: slots must be handed back on the error paths too
		k := base
		k.MinTasks, k.MaxTasks, k.MaxDeps = 4, 8, 4
		k.PDep, k.PCall = 0.5, 0.45
		k.POnce, k.PWC = 0.25, 0.1
		k.Conc = []int{1, 1, 2, 2, 3}
		k.PFail, k.MaxFails = 0.25, 3
		k.PIgnoreCmd = 0.25
		k.PDefer, k.PDeferCall = 0.15, 0.1
		k.PSkeleton = 0.15
		k.MaxEvents = 60
		return k
	case "guard": // C13
		k := base
		k.PSkeleton = 0.15
		k.PGuard, k.PGuardFail = 0.5, 0.4
		k.PFail, k.MaxFails = 0.05, 1
		k.POnce = 0.25
		k.PDefer, k.PDeferCall = 0.08, 0.12
		k.PLoop, k.PDepLoop = 0.15, 0.1
		return k
	case "defer": // C14
		k := base
		k.PSkeleton = 0.2
		k.PDefer, k.PDeferCall, k.PDeferFail = 0.4, 0.2, 0.3
		k.PLoop, k.PMatrix = 0.2, 0.08
		k.MaxEntries = 5
		k.PFail, k.MaxFails = 0.2, 2
		k.PIgnoreCmd = 0.15
		k.POnce = 0.15
		return k
	case "race": // C18: everything concurrent, failure free mostly
		k := base
		k.MinTasks, k.MaxTasks, k.MaxDeps = 5, 10, 5
		k.PDep, k.PCall = 0.6, 0.4
		k.POnce, k.PWC = 0.25, 0.25
		k.PLoop, k.PMatrix, k.PDepLoop = 0.3, 0.3, 0.3
		k.PDefer, k.PDeferCall = 0.15, 0.1
		k.PFail, k.MaxFails = 0.05, 1
		k.Includes = true
		k.PParallel, k.MaxRoots = 0.7, 4
		k.MaxEvents = 120
		k.Conc = []int{0, 0, 2, 4}
		return k
	}
	return base
}

var loopVals = []string{"a", "b", "c", "d"}

// Generate builds a random acyclic program. Task i references only tasks with
// a larger index, so the graph is acyclic by construction.
func Generate(rng *rand.Rand, profile string) *Prog {
	k := Profile(profile)
	if rng.Float64() < k.PSkeleton {
		p := skeleton(rng, profile)
		p.Profile = profile + "/skeleton"
		return p
	}
	for attempt := 0; ; attempt++ {
		p := generate(rng, k, profile)
		n := CountEvents(p)
		if n >= 2 && n <= k.MaxEvents {
			return p
		}
		if attempt > 200 {
			return p
		}
	}
}

func generate(rng *rand.Rand, k Knobs, profile string) *Prog {
	p := &Prog{Profile: profile}
	n := k.MinTasks + rng.Intn(k.MaxTasks-k.MinTasks+1)
	refID := 0
	newRef := func(target int) *Ref {
		refID++
		return &Ref{ID: refID, Target: target}
	}
	nfiles := 0
	if k.Includes && rng.Float64() < 0.5 {
		nfiles = 1
		p.TwoNS = rng.Float64() < 0.5
	}
	fails := 0
	p.Yes = rng.Float64() < 0.5
	for i := 0; i < n; i++ {
		t := &Task{Name: fmt.Sprintf("t%d", i)}
		p.Tasks = append(p.Tasks, t)
	}
	// run modes, files, guards first (references need to know their targets)
	for i, t := range p.Tasks {
		r := rng.Float64()
		switch {
		case i > 0 && r < k.POnce:
			t.Run = Once
		case i > 0 && r < k.POnce+k.PWC:
			t.Run = WhenChanged
			t.UsesX = true
			if k.XVariants {
				switch rng.Intn(4) {
				case 0:
					t.XVia = "env"
					t.UsesX = false
				case 1:
					// (the "sub" variant needs a callee of its own: it is generated by the dedup skeleton)
				}
			}
		default:
			t.UsesX = rng.Float64() < k.PUsesX
		}
		if nfiles > 0 && i > 0 && rng.Float64() < 0.4 {
			t.File = 1
			if p.TwoNS && t.Run == WhenChanged {
				t.File = 0 // when_changed identity across namespaces is not specified
			}
		}
		if rng.Float64() < k.PGuard {
			kinds := []string{"platform", "requires", "enum", "precondition", "prompt"}
			g := Guard{Kind: kinds[rng.Intn(len(kinds))], Pass: rng.Float64() >= k.PGuardFail}
			t.Guards = append(t.Guards, g)
			if rng.Float64() < 0.25 {
				g2 := Guard{Kind: kinds[rng.Intn(len(kinds))], Pass: rng.Float64() >= k.PGuardFail}
				if g2.Kind != g.Kind && !(g.Kind == "requires" && g2.Kind == "enum") && !(g.Kind == "enum" && g2.Kind == "requires") {
					t.Guards = append(t.Guards, g2)
				}
			}
		}
	}
	pickX := func(t *Task) string {
		if t.Run == WhenChanged && t.XVia == "env" {
			// pairs that only differ by which name holds which value, or by one value under two names
			return []string{"one,two", "two,one", "one,one", "two,two", "one,", ",one"}[rng.Intn(6)]
		}
		if t.Run == WhenChanged {
			return []string{"one", "two"}[rng.Intn(2)]
		}
		if t.UsesX && rng.Float64() < 0.8 {
			return []string{"u", "v", "w"}[rng.Intn(3)]
		}
		return ""
	}
	// pick a target for a reference from task i: a larger index, same-file rules
	pickTarget := func(i int) int {
		if i+1 >= n {
			return -1
		}
		for tries := 0; tries < 8; tries++ {
			j := i + 1 + rng.Intn(n-i-1)
			tf, jf := p.Tasks[i].File, p.Tasks[j].File
			if tf == 0 || jf == tf || jf == 0 {
				return j
			}
		}
		return -1
	}
	for i, t := range p.Tasks {
		guardFail := t.GuardFails(p.Yes) != ""
		// deps
		if !guardFail && t.XVia != "env" {
			for d := 0; d < k.MaxDeps; d++ {
				if rng.Float64() < k.PDep/float64(d+1) {
					if j := pickTarget(i); j >= 0 {
						r := newRef(j)
						r.X = pickX(p.Tasks[j])
						t.Deps = append(t.Deps, r)
						if rng.Float64() < k.PDepLoop {
							if t.DepLoop == nil {
								t.DepLoop = map[int][]string{}
							}
							t.DepLoop[len(t.Deps)-1] = loopVals[:2+rng.Intn(2)]
							if p.Tasks[j].Run == WhenChanged {
								r.X = "m%ITEM%"
							}
						}
					}
				}
			}
		}
		if rng.Float64() < k.PIgnoreTask && t.XVia != "sub" {
			t.IgnoreError = true
		}
		ne := 1 + rng.Intn(k.MaxEntries)
		if t.XVia == "sub" {
			ne = 1 + rng.Intn(2)
		}
		for e := 0; e < ne; e++ {
			r := rng.Float64()
			canCall := i+1 < n && t.XVia != "env"
			switch {
			case t.XVia == "sub":
				j := -1
				for tries := 0; tries < 20 && j < 0; tries++ {
					if c := pickTarget(i); c >= 0 && p.Tasks[c].Run == Always {
						j = c
					}
				}
				if j < 0 {
					t.XVia, t.UsesX = "", true
					t.Entries = append(t.Entries, &Entry{Kind: Probe})
					continue
				}
				p.Tasks[j].UsesX = true
				ref := newRef(j)
				ref.X = "{{.X}}"
				t.Entries = append(t.Entries, &Entry{Kind: Call, Ref: ref})
			case canCall && r < k.PCall:
				j := pickTarget(i)
				if j < 0 {
					t.Entries = append(t.Entries, &Entry{Kind: Probe})
					continue
				}
				en := &Entry{Kind: Call, Ref: newRef(j)}
				en.Ref.X = pickX(p.Tasks[j])
				if rng.Float64() < k.PLoop {
					en.Loop = loopVals[:2+rng.Intn(3)]
					en.LoopVar = rng.Intn(3) == 0
					if p.Tasks[j].Run == WhenChanged || (p.Tasks[j].UsesX && rng.Float64() < 0.5) {
						en.Ref.X = "k%ITEM%"
					}
				} else if rng.Float64() < k.PMatrix {
					en.Matrix = randMatrix(rng)
					en.MatrixRef = rng.Float64() < 0.4
					if p.Tasks[j].Run == WhenChanged {
						en.Ref.X = "k%ITEM%"
					}
				}
				t.Entries = append(t.Entries, en)
			case r < k.PCall+k.PDefer && t.XVia != "env":
				en := &Entry{Kind: DeferCmd, DeferFail: rng.Float64() < k.PDeferFail}
				en.BadTmpl = k.PDeferFail > 0 && rng.Intn(8) == 0
				t.Entries = append(t.Entries, en)
			case canCall && r < k.PCall+k.PDefer+k.PDeferCall:
				j := pickTarget(i)
				if j < 0 || p.Tasks[j].Run == WhenChanged {
					t.Entries = append(t.Entries, &Entry{Kind: Probe})
					continue
				}
				en := &Entry{Kind: DeferCall, Ref: newRef(j)}
				en.Ref.X = pickX(p.Tasks[j])
				t.Entries = append(t.Entries, en)
			default:
				en := &Entry{Kind: Probe}
				if fails < k.MaxFails && rng.Float64() < k.PFail {
					en.Exit = []int{1, 2, 3, 7, 42, 126, 255}[rng.Intn(7)]
					if rng.Float64() < k.PIgnoreCmd {
						en.IgnoreErr = true
					} else if !t.IgnoreError {
						fails++
					}
				} else if rng.Float64() < k.PLoop {
					en.Loop = loopVals[:2+rng.Intn(3)]
					en.LoopVar = rng.Intn(3) == 0
					en.AsX = en.LoopVar && t.UsesX && t.XVia == "" && rng.Intn(2) == 0
				} else if rng.Float64() < k.PMatrix {
					en.Matrix = randMatrix(rng)
					en.MatrixRef = rng.Float64() < 0.4
				}
				t.Entries = append(t.Entries, en)
			}
		}
		// at most one MatrixRef per task (one MROW variable)
		seenRef := false
		for _, e := range t.Entries {
			if e.MatrixRef {
				if seenRef {
					e.MatrixRef = false
				}
				seenRef = true
				// the list depends on the call variable where the instance's X is well defined
				e.MatrixRefX = e.MatrixRef && t.UsesX && t.Run != Once && t.XVia == "" && rng.Intn(3) > 0
			}
		}
	}
	// two deduplicated tasks of the included file whose names end alike after a ':' (docker:build / go:build):
	// their identities must stay distinct
	if nfiles > 0 && rng.Intn(2) == 0 {
		var shared []*Task
		for _, t := range p.Tasks {
			if t.File == 1 && t.Run == Once {
				shared = append(shared, t)
			}
		}
		if len(shared) >= 2 {
			shared[0].Name, shared[1].Name = "ga:w", "gb:w"
		}
	}
	// some references pass a bad value to a task whose requires/enum guard other references satisfy
	if k.PGuard > 0 {
		mark := func(r *Ref) {
			t := p.Tasks[r.Target]
			if t.Run != Always || t.GuardFails(p.Yes) != "" {
				return
			}
			for _, g := range t.Guards {
				if (g.Kind == "requires" || g.Kind == "enum") && g.Pass && rng.Float64() < 0.3 {
					r.BadRQ = true
				}
			}
		}
		for _, t := range p.Tasks {
			for _, d := range t.Deps {
				mark(d)
			}
			for _, e := range t.Entries {
				if e.Ref != nil && e.Kind == Call {
					mark(e.Ref)
				}
			}
		}
	}
	// roots
	nr := 1 + rng.Intn(k.MaxRoots)
	used := map[int]bool{}
	for r := 0; r < nr; r++ {
		j := 0
		if r > 0 {
			j = rng.Intn(n)
		}
		if used[j] {
			continue
		}
		used[j] = true
		ref := newRef(j)
		ref.X = pickX(p.Tasks[j])
		p.Roots = append(p.Roots, ref)
	}
	p.Parallel = len(p.Roots) > 1 && rng.Float64() < k.PParallel
	p.Conc = k.Conc[rng.Intn(len(k.Conc))]
	return p
}

func randMatrix(rng *rand.Rand) []MatrixRow {
	keys := []string{"A", "B", "C"}
	nk := 1 + rng.Intn(3)
	var rows []MatrixRow
	for i := 0; i < nk; i++ {
		vals := []string{"p", "q", "r"}[:1+rng.Intn(3)]
		if nk == 3 {
			vals = []string{"p", "q"}[:1+rng.Intn(2)] // keep the product small: at most 8 combinations
		}
		var vs []string
		for _, v := range vals {
			vs = append(vs, fmt.Sprintf("%s%d", v, i))
		}
		rows = append(rows, MatrixRow{Key: keys[i], Values: vs})
	}
	return rows
}

// CountEvents statically expands the program (as if nothing failed) and counts
// its probe events; -1 if the expansion explodes.
func CountEvents(p *Prog) int {
	m := &Model{P: p, insts: map[string]*Inst{}, seen: map[string]bool{}}
	total := 0
	var walk func(i *Inst, depth int) bool
	done := map[*Inst]bool{}
	walk = func(i *Inst, depth int) bool {
		if done[i] {
			return true
		}
		done[i] = true
		if depth > 30 || total > 2000 {
			return false
		}
		m.expand(i)
		for _, d := range i.deps {
			if !walk(d, depth+1) {
				return false
			}
		}
		for _, e := range i.ents {
			switch e.e.Kind {
			case Probe:
				total += 2
			case DeferCmd:
				total++
			default:
				if !walk(e.callee, depth+1) {
					return false
				}
			}
		}
		return true
	}
	for _, r := range p.Roots {
		if !walk(m.inst(nil, r, "", "root"), 0) {
			return -1
		}
	}
	return total
}

// skeleton builds one of the hand-shaped scenarios that the properties single out and that a
// random graph produces only rarely: a deduplicated task that is still running, or has already
// failed, when another referrer arrives, with a failure in exactly one branch. They are small
// enough for all their release orders to be enumerated.
func skeleton(rng *rand.Rand, profile string) *Prog {
	p := &Prog{}
	id := 0
	ref := func(t int) *Ref { id++; return &Ref{ID: id, Target: t} }
	probes := func(n int) []*Entry {
		var es []*Entry
		for i := 0; i < n; i++ {
			es = append(es, &Entry{Kind: Probe})
		}
		return es
	}
	mode := Once
	x := ""
	if rng.Intn(3) == 0 {
		mode, x = WhenChanged, "one"
	}
	code := []int{1, 2, 3, 7, 42, 126, 255}[rng.Intn(7)]
	mk := func(n int) {
		for i := 0; i < n; i++ {
			p.Tasks = append(p.Tasks, &Task{Name: fmt.Sprintf("t%d", i)})
		}
	}
	sref := func(t int) *Ref { r := ref(t); r.X = x; return r }
	viaCall := rng.Intn(2) == 0
	which := rng.Intn(4)
	if profile == "dedup" && rng.Intn(3) == 0 {
		which = 4
	}
	if (profile == "fail" || profile == "dedup") && rng.Intn(4) == 0 {
		which = 5
	}
	if (profile == "deps" || profile == "dedup") && rng.Intn(6) == 0 {
		which = 6
	}
	if profile == "guard" {
		which = 7
	}
	switch which {
	case 7: // a deduplicated task whose guard (evaluated after its deps) fails while a second referrer is already waiting
		mk(5)
		p.Tasks[0].Deps = []*Ref{ref(1), ref(2)}
		p.Tasks[1].Deps = []*Ref{sref(3)}
		p.Tasks[1].Entries = probes(1)
		p.Tasks[2].Entries = append([]*Entry{{Kind: Call, Ref: sref(3)}}, probes(1)...)
		p.Tasks[3].Run, p.Tasks[3].UsesX = mode, mode == WhenChanged
		p.Tasks[3].Deps = []*Ref{ref(4)}
		p.Tasks[3].Guards = []Guard{{Kind: []string{"precondition", "prompt"}[rng.Intn(2)], Pass: false}}
		p.Tasks[3].Entries = probes(1)
		p.Tasks[4].Entries = probes(1 + rng.Intn(2))
		if rng.Intn(2) == 0 {
			p.Tasks[2].Entries = append([]*Entry{{Kind: DeferCmd}}, p.Tasks[2].Entries...)
		}
		p.Roots = []*Ref{ref(0)}
		p.Conc = []int{0, 0, 2, 3}[rng.Intn(4)]
		p.Yes = false
		return p
	case 6: // two run-once tasks of an included file whose names end alike after a ':'; each is needed by another task
		mk(5)
		p.Tasks[3].Name, p.Tasks[4].Name = "ga:w", "gb:w"
		for _, j := range []int{3, 4} {
			p.Tasks[j].Run, p.Tasks[j].File = Once, 1
			p.Tasks[j].Entries = probes(1 + rng.Intn(2))
		}
		for k, j := range []int{1, 2} {
			if viaCall && k == 1 {
				p.Tasks[j].Entries = append([]*Entry{{Kind: Call, Ref: ref(3 + k)}}, probes(1)...)
			} else {
				p.Tasks[j].Deps = []*Ref{ref(3 + k)}
				p.Tasks[j].Entries = probes(1)
			}
		}
		if rng.Intn(2) == 0 {
			p.Tasks[0].Deps = []*Ref{ref(1), ref(2)}
		} else {
			p.Tasks[0].Entries = []*Entry{{Kind: Call, Ref: ref(1)}, {Kind: Call, Ref: ref(2)}}
		}
		p.Tasks[0].Entries = append(p.Tasks[0].Entries, probes(1)...)
		p.Roots = []*Ref{ref(0)}
		p.Conc = []int{0, 0, 1, 2}[rng.Intn(4)]
		p.Yes = true
		return p
	case 5: // a failing shared task whose failure k callers tolerate (task-level ignore_error) before one that must fail
		k := 2 + rng.Intn(3)
		mk(k + 3)
		p.Tasks[1].Run, p.Tasks[1].UsesX = mode, mode == WhenChanged
		p.Tasks[1].Entries = append(probes(rng.Intn(2)), &Entry{Kind: Probe, Exit: code})
		strict := k + 2
		if viaCall {
			p.Tasks[strict].Entries = append([]*Entry{{Kind: Call, Ref: sref(1)}}, probes(1)...)
		} else {
			p.Tasks[strict].Deps = []*Ref{sref(1)}
			p.Tasks[strict].Entries = probes(1)
		}
		par := rng.Intn(2) == 0
		for j := 2; j < strict; j++ {
			p.Tasks[j].IgnoreError = true
			p.Tasks[j].Entries = append([]*Entry{{Kind: Call, Ref: sref(1)}}, probes(1)...)
			if par {
				p.Tasks[0].Deps = append(p.Tasks[0].Deps, ref(j))
			} else {
				p.Tasks[0].Entries = append(p.Tasks[0].Entries, &Entry{Kind: Call, Ref: ref(j)})
			}
		}
		p.Tasks[0].Entries = append(p.Tasks[0].Entries, &Entry{Kind: Call, Ref: ref(strict)})
		p.Tasks[0].Entries = append(p.Tasks[0].Entries, probes(1)...)
		p.Roots = []*Ref{ref(0)}
		p.Conc = []int{0, 0, 1, 2}[rng.Intn(4)]
		p.Yes = true
		return p
	case 4: // a when_changed task whose variables reach only its env (or only its sub-call), called with swapped / doubled values
		if rng.Intn(2) == 0 {
			// X reaches the callee's commands only through the vars of its own sub-call
			mk(4)
			p.Tasks[1].Run, p.Tasks[1].XVia = WhenChanged, "sub"
			fwd := ref(3)
			fwd.X = "{{.X}}"
			p.Tasks[1].Entries = []*Entry{{Kind: Call, Ref: fwd}}
			p.Tasks[3].UsesX, p.Tasks[3].PFromX = true, true
			p.Tasks[3].Entries = probes(1)
			vals := []string{"one", "two", "one", "three"}
			for k, v := range vals[:2+rng.Intn(3)] {
				r := ref(1)
				r.X = v
				if viaCall || k%2 == 0 {
					p.Tasks[0].Entries = append(p.Tasks[0].Entries, &Entry{Kind: Call, Ref: r})
				} else {
					p.Tasks[2].Deps = append(p.Tasks[2].Deps, r)
				}
			}
			p.Tasks[2].Entries = probes(1)
			p.Tasks[0].Entries = append(p.Tasks[0].Entries, &Entry{Kind: Call, Ref: ref(2)})
			p.Roots = []*Ref{ref(0)}
			p.Conc = []int{0, 0, 1, 2}[rng.Intn(4)]
			p.Yes = true
			return p
		}
		mk(3)
		p.Tasks[1].Run, p.Tasks[1].XVia = WhenChanged, "env"
		p.Tasks[1].Entries = probes(1)
		pairs := []string{"one,two", "two,one", "one,one", "two,two"}
		rng.Shuffle(len(pairs), func(i, j int) { pairs[i], pairs[j] = pairs[j], pairs[i] })
		for k, pr := range pairs[:2+rng.Intn(3)] {
			r := ref(1)
			r.X = pr
			if viaCall || k%2 == 0 {
				p.Tasks[0].Entries = append(p.Tasks[0].Entries, &Entry{Kind: Call, Ref: r})
			} else {
				p.Tasks[2].Deps = append(p.Tasks[2].Deps, r)
			}
		}
		p.Tasks[2].Entries = probes(1)
		p.Tasks[0].Entries = append(p.Tasks[0].Entries, &Entry{Kind: Call, Ref: ref(2)})
		p.Roots = []*Ref{ref(0)}
		p.Conc = []int{0, 0, 1, 2}[rng.Intn(4)]
		p.Yes = true
		return p
	case 0: // the shared task is running for branch t2 while a sibling of its first possible starter fails
		mk(5)
		p.Tasks[0].Deps = []*Ref{ref(1), ref(2)}
		p.Tasks[1].Deps = []*Ref{sref(3), ref(4)}
		if viaCall {
			p.Tasks[2].Entries = append([]*Entry{{Kind: Call, Ref: sref(3)}}, probes(1)...)
		} else {
			p.Tasks[2].Deps = []*Ref{sref(3)}
			p.Tasks[2].Entries = probes(1)
		}
		p.Tasks[3].Run, p.Tasks[3].UsesX = mode, mode == WhenChanged
		p.Tasks[3].Entries = probes(1 + rng.Intn(2))
		p.Tasks[4].Entries = append(probes(rng.Intn(2)), &Entry{Kind: Probe, Exit: code})
		p.Tasks[1].Entries = probes(1)
	case 1: // the shared task has failed before a late referrer reaches it
		mk(4)
		p.Tasks[0].Deps = []*Ref{ref(1), ref(2)}
		p.Tasks[1].Deps = []*Ref{sref(3)}
		p.Tasks[1].Entries = probes(1)
		p.Tasks[2].Entries = append(probes(1+rng.Intn(2)), &Entry{Kind: Call, Ref: sref(3)})
		p.Tasks[2].Entries = append(p.Tasks[2].Entries, probes(1)...)
		p.Tasks[3].Run, p.Tasks[3].UsesX = mode, mode == WhenChanged
		p.Tasks[3].Entries = append(probes(rng.Intn(2)), &Entry{Kind: Probe, Exit: code})
	case 2: // the waiter's own group is cancelled while the shared task runs for an unaffected branch
		mk(6)
		p.Tasks[0].Deps = []*Ref{ref(1), ref(2)}
		p.Tasks[1].Deps = []*Ref{sref(3)}
		p.Tasks[1].Entries = probes(1)
		p.Tasks[2].Deps = []*Ref{ref(5), ref(4)}
		p.Tasks[2].Entries = probes(1)
		p.Tasks[3].Run, p.Tasks[3].UsesX = mode, mode == WhenChanged
		p.Tasks[3].Entries = probes(2)
		p.Tasks[4].Entries = []*Entry{{Kind: Probe, Exit: code}}
		p.Tasks[5].Entries = []*Entry{{Kind: DeferCmd}, {Kind: Call, Ref: sref(3)}, {Kind: Probe}}
	case 3: // several referrers, a shared task with a defer, and a failing command after the shared call
		mk(5)
		p.Tasks[0].Deps = []*Ref{ref(1), ref(2), ref(4)}
		p.Tasks[1].Deps = []*Ref{sref(3)}
		p.Tasks[1].Entries = []*Entry{{Kind: DeferCmd}, {Kind: Probe}}
		p.Tasks[2].Entries = []*Entry{{Kind: Call, Ref: sref(3)}, {Kind: Probe, Exit: code}, {Kind: Probe}}
		p.Tasks[3].Run, p.Tasks[3].UsesX = mode, mode == WhenChanged
		p.Tasks[3].Entries = []*Entry{{Kind: DeferCmd}, {Kind: Probe}}
		p.Tasks[4].Deps = []*Ref{sref(3)}
		p.Tasks[4].Entries = probes(1)
	}
	if rng.Intn(3) == 0 {
		// the two branches as --parallel roots instead of deps of one task
		for _, d := range p.Tasks[0].Deps {
			p.Roots = append(p.Roots, d)
		}
		p.Parallel = true
	} else {
		p.Roots = []*Ref{ref(0)}
	}
	p.Conc = []int{0, 0, 1, 2, 3}[rng.Intn(5)]
	p.Yes = true
	return p
}
