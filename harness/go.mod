module github.com/go-task/task/v3/verifh

go 1.23.0

require (
	github.com/go-task/task/v3 v3.0.0
	gopkg.in/yaml.v3 v3.0.1
)

require (
	dario.cat/mergo v1.0.0 // indirect
	github.com/Ladicle/tabwriter v1.0.0 // indirect
	github.com/Masterminds/semver/v3 v3.3.1 // indirect
	github.com/ProtonMail/go-crypto v1.1.6 // indirect
	github.com/alecthomas/chroma/v2 v2.16.0 // indirect
	github.com/chainguard-dev/git-urls v1.0.2 // indirect
	github.com/cloudflare/circl v1.6.1 // indirect
	github.com/cyphar/filepath-securejoin v0.4.1 // indirect
	github.com/davecgh/go-spew v1.1.1 // indirect
	github.com/dlclark/regexp2 v1.11.5 // indirect
	github.com/dominikbraun/graph v0.23.0 // indirect
	github.com/elliotchance/orderedmap/v3 v3.1.0 // indirect
	github.com/emirpasic/gods v1.18.1 // indirect
	github.com/fatih/color v1.18.0 // indirect
	github.com/fsnotify/fsnotify v1.9.0 // indirect
	github.com/go-git/gcfg v1.5.1-0.20230307220236-3a3c6141e376 // indirect
	github.com/go-git/go-billy/v5 v5.6.2 // indirect
	github.com/go-git/go-git/v5 v5.15.0 // indirect
	github.com/go-task/slim-sprig/v3 v3.0.0 // indirect
	github.com/go-task/template v0.1.0 // indirect
	github.com/golang/groupcache v0.0.0-20241129210726-2c02b8208cf8 // indirect
	github.com/jbenet/go-context v0.0.0-20150711004518-d14ea06fba99 // indirect
	github.com/joho/godotenv v1.5.1 // indirect
	github.com/kevinburke/ssh_config v1.2.0 // indirect
	github.com/klauspost/cpuid/v2 v2.2.7 // indirect
	github.com/mattn/go-colorable v0.1.13 // indirect
	github.com/mattn/go-isatty v0.0.20 // indirect
	github.com/mitchellh/hashstructure/v2 v2.0.2 // indirect
	github.com/pjbgf/sha1cd v0.3.2 // indirect
	github.com/pmezard/go-difflib v1.0.0 // indirect
	github.com/puzpuzpuz/xsync/v3 v3.5.1 // indirect
	github.com/sajari/fuzzy v1.0.0 // indirect
	github.com/sergi/go-diff v1.3.2-0.20230802210424-5b0b94c5c0d3 // indirect
	github.com/skeema/knownhosts v1.3.1 // indirect
	github.com/spf13/pflag v1.0.6 // indirect
	github.com/stretchr/objx v0.5.2 // indirect
	github.com/stretchr/testify v1.10.0 // indirect
	github.com/xanzy/ssh-agent v0.3.3 // indirect
	github.com/zeebo/xxh3 v1.0.2 // indirect
	golang.org/x/crypto v0.37.0 // indirect
	golang.org/x/net v0.39.0 // indirect
	golang.org/x/sync v0.13.0 // indirect
	golang.org/x/sys v0.32.0 // indirect
	golang.org/x/term v0.31.0 // indirect
	gopkg.in/warnings.v0 v0.1.2 // indirect
	mvdan.cc/sh/v3 v3.11.0 // indirect
)

replace github.com/go-task/task/v3 => /repo
