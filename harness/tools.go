//go:build tools

package verifh

import _ "github.com/anishathalye/porcupine"
