package p19

import (
	"encoding/json"
	"fmt"
	"path/filepath"
	"strings"
	"time"

	"github.com/go-task/task/v3/verifh/h"
)

// initCase is one `task --init [path]` run in the fresh directory <proj>/w.
type initCase struct {
	Shape     string   `json:"shape"`      // label of the path shape
	Kind      string   `json:"kind"`       // none | dir | file | ext | missingdir
	HasArg    bool     `json:"has_arg"`    //
	Arg       string   `json:"arg"`        // as given (relative), or joined to the absolute path of w when Abs
	Abs       bool     `json:"abs"`        //
	Expect    []string `json:"expect"`     // acceptable locations of the new file, relative to w
	Present   bool     `json:"present"`    // a target exists before the run
	PresentAt []string `json:"present_at"` // which of the acceptable locations exist before the run (content ORIGINAL)
	ArgBefore bool     `json:"arg_before"` // `task <path> --init` instead of `task --init <path>`
}

func (c *initCase) key() string {
	return fmt.Sprintf("%s|%q|abs=%v|present=%v|before=%v", c.Kind, c.Arg, c.Abs, c.PresentAt, c.ArgBefore)
}

var initDirs = []string{"sub", "sub/deep", "dir with space", "dïr", "d=r"}

func initCases() []*initCase {
	var out []*initCase
	add := func(kind, arg string, abs bool, expect ...string) {
		out = append(out, &initCase{Shape: arg, Kind: kind, HasArg: kind != "none", Arg: arg, Abs: abs, Expect: expect})
		// the target exists. For an extension-only argument there are two
		// candidates (Taskfile.<ext>, the expansion, and the literal name): each
		// of them alone and both together, because "never overwrite" holds for
		// whatever file the run ends up writing to
		sets := [][]string{expect[:1]}
		if len(expect) > 1 {
			sets = append(sets, expect[1:2], expect)
		}
		for _, at := range sets {
			out = append(out, &initCase{Shape: arg, Kind: kind, HasArg: kind != "none", Arg: arg, Abs: abs, Expect: expect, Present: true, PresentAt: at})
		}
	}
	add("none", "", false, "Taskfile.yml")
	for _, d := range []string{".", "./", "sub", "./sub", "sub/", "sub/deep", "./sub/deep/", "sub/../sub", "sub//deep", "dir with space", "dïr", "d=r", "sub/deep/.."} {
		add("dir", d, false, filepath.Join(d, "Taskfile.yml"))
	}
	add("dir", "", true, "Taskfile.yml")
	add("dir", "sub", true, "sub/Taskfile.yml")
	add("dir", "sub/deep/", true, "sub/deep/Taskfile.yml")
	for _, f := range []string{"Custom.yml", "./Custom.yml", "sub/Custom.yml", "sub/deep/Custom.yaml", "Taskfile.yaml", "Taskfile.dist.yml", "my tasks.yml", "tâche.yml", "a=b.yml", "X=1", "Custom", "x.y.z.yml",
		"$HOME.yml", "*.yml", "'quoted'.yml", "\"dq\".yml", "{{.TASK}}.yml", "{{.yml", "sub/../Other.yml", "semi;colon.yml", "tab\tname.yml", "new\nline.yml", "[br].yml", "~tilde.yml", "back\\slash.yml", "dir with space/My File.yml", "d=r/e=f.yml", "%s.yml"} {
		add("file", f, false, filepath.Clean(f))
	}
	add("file", "sub/Abs.yml", true, "sub/Abs.yml")
	add("file", "Abs Top.yml", true, "Abs Top.yml")
	for _, e := range []string{".yml", ".yaml", "./.yml", "sub/.yaml", "sub/deep/.yml"} {
		add("ext", e, false, filepath.Join(filepath.Dir(e), "Taskfile"+filepath.Ext(e)), filepath.Clean(e))
	}
	add("ext", "sub/.yml", true, "sub/Taskfile.yml", "sub/.yml")
	add("missingdir", "nodir/Custom.yml", false, "nodir/Custom.yml")
	// the path given before the flag
	for _, f := range []string{"sub", "sub/Before.yml", "Before.yml"} {
		exp := filepath.Clean(f)
		kind := "file"
		if f == "sub" {
			exp, kind = "sub/Taskfile.yml", "dir"
		}
		out = append(out, &initCase{Shape: f, Kind: kind, HasArg: true, Arg: f, Expect: []string{exp}, ArgBefore: true})
		out = append(out, &initCase{Shape: f, Kind: kind, HasArg: true, Arg: f, Expect: []string{exp}, Present: true, PresentAt: []string{exp}, ArgBefore: true})
	}
	// seeded random file names
	r := h.Rng(19, 3)
	for i, n := 0, h.Pick(12, 300); i < n; i++ {
		name := genString(r, 120, genOpts{fileName: true})
		name = strings.TrimLeft(name, "-.")
		if name == "" || len(name) > 200 {
			continue
		}
		name += ".yml"
		dir := []string{"", "sub/", "dir with space/"}[r.Intn(3)]
		add("file", dir+name, false, dir+name)
	}
	return out
}

func runInit(id string, e *env, c *acase, proj string, part *h.Partial) {
	ic := c.Init
	w := filepath.Join(proj, "w")
	files := map[string]string{"outside/keep.txt": "keep\n"}
	for _, d := range initDirs {
		files["w/"+d+"/keep.txt"] = "keep\n"
	}
	for _, x := range ic.PresentAt {
		files["w/"+filepath.ToSlash(filepath.Clean(x))] = "ORIGINAL\n"
	}
	if err := h.WriteTree(proj, files); err != nil {
		part.Inconc(fmt.Sprintf("init case %s: %v", ic.key(), err))
		return
	}
	arg := ic.Arg
	if ic.Abs {
		arg = w
		if ic.Arg != "" {
			arg = w + "/" + ic.Arg
		}
	}
	args := []string{"--init"}
	if ic.HasArg {
		if ic.ArgBefore {
			args = []string{arg, "--init"}
		} else {
			args = append(args, arg)
		}
	}
	before := h.Snap(proj, false)
	res := runCLI(h.CLI{Bin: e.bin, Dir: w, Args: args, Timeout: 120 * time.Second}, filepath.Join(e.capDir, fmt.Sprintf("i%06d", c.idx)))
	after := h.Snap(proj, false)
	part.Eval(c.key(), ic.HasArg)
	part.Count("cli_runs", 1)
	part.Count("runs.init", 1)
	if res.TimedOut {
		part.Inconc(fmt.Sprintf("init case %s: watchdog", ic.key()))
		return
	}
	part.Count("init_snapshots", 1)
	diff := before.Diff(after)
	var added, changed, removed []string
	for _, d := range diff {
		switch {
		case strings.HasPrefix(d, "added "):
			p := strings.TrimPrefix(d, "added ")
			if i := strings.LastIndex(p, " ("); i >= 0 {
				p = p[:i]
			}
			added = append(added, p)
		case strings.HasPrefix(d, "changed "):
			changed = append(changed, d)
		default:
			removed = append(removed, d)
		}
	}
	okPlace := func(p string) bool {
		for _, x := range ic.Expect {
			if p == filepath.Join("w", filepath.Clean(x)) {
				return true
			}
		}
		return false
	}
	var vs []viol
	desc := fmt.Sprintf("task %s (existing before the run: %v): exit %d, tree changes %v", strings.Join(quoteList(args), " "), quoteList(ic.PresentAt), res.Exit, diff)
	if len(changed) > 0 || len(removed) > 0 {
		vs = append(vs, viol{id + " | init | an existing file was overwritten or removed", desc})
	}
	switch {
	case len(added) == 0 && !ic.Present && ic.Kind != "missingdir" && len(changed) == 0:
		vs = append(vs, viol{id + " | init | no Taskfile was created", desc})
	case len(added) == 0 && ic.Present && len(diff) == 0 && res.Exit == 0:
		// documented: exit code 101 "A Taskfile already exists when trying to initialize one"
		vs = append(vs, viol{id + " | init | target exists, nothing was written, yet success was reported", desc})
	case len(added) == 1 && added[0] == "w/Taskfile.yml" && !okPlace(added[0]):
		vs = append(vs, viol{id + " | init | path argument ignored: the Taskfile was created as ./Taskfile.yml", desc})
	case len(added) > 1 || (len(added) == 1 && !okPlace(added[0])):
		// (with a target present, a new file at the other acceptable place of an
		// extension-only argument is where the path says; anything else is not)
		vs = append(vs, viol{id + " | init kind=" + ic.Kind + " | the Taskfile was created at another place than the path names", desc})
	case len(added) == 1 && e.defaultTaskfile != "" && h.ReadFile(filepath.Join(proj, added[0])) != e.defaultTaskfile:
		vs = append(vs, viol{id + " | init | the created file is not the default Taskfile", desc})
	}
	if ic.Present && len(diff) == 0 && res.Exit != 0 {
		part.Count("init_refused_existing", 1)
	}
	rec := map[string]any{"family": "init", "init": ic, "task_args": quoteList(args), "task_args_hex": hexList(args), "cwd": "w", "exit": res.Exit, "tree_changes": diff, "stdout": res.Stdout, "stderr": res.Stderr}
	if c.idx%7 == 0 {
		part.Sample(rec, 10)
	}
	if len(vs) == 0 {
		part.Count("held", 1)
		return
	}
	for _, v := range vs {
		wit := map[string]string{}
		for n, content := range files {
			wit["project/"+n] = content
		}
		rec["seed"], rec["tier"], rec["what"] = h.Seed(), h.Tier(), v.what
		b, _ := json.MarshalIndent(rec, "", " ")
		wit["case.json"] = string(b)
		part.Violation(v.sig, v.what, wit)
	}
}
