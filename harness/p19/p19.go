// Package p19 is the C19 check: command-line arguments reach their
// destination verbatim. Black-box: the rebuilt CLI runs generated Taskfiles
// whose commands call the helper binary argdump (built from
// harness/cmd/argdump), which records its argv; the oracle is byte equality
// between what the harness passed and what argdump received. `--init [path]`
// is judged on directory snapshots.
package p19

import (
	"bufio"
	"encoding/hex"
	"encoding/json"
	"fmt"
	"math/rand"
	"os"
	"os/exec"
	"path/filepath"
	"runtime"
	"strings"
	"time"
	"unicode/utf8"

	"github.com/go-task/task/v3/verifh/h"
)

// ---------------------------------------------------------------------------
// hostile strings

type tok struct {
	s string
	w int
}

var alphabet = []tok{
	{"a", 8}, {"b", 4}, {"Z", 3}, {"0", 3}, {"7", 2}, {"_", 2}, {"-", 4}, {".", 3}, {"/", 3}, {",", 1}, {":", 2}, {"@", 1}, {"+", 1}, {"^", 1},
	{" ", 9}, {"\t", 2}, {"\n", 3}, {"\r", 2},
	// line endings as multi-byte tokens: a CR directly before a LF is what a shell lexer may fold
	{"\r\n", 5}, {"a\r\nb", 2}, {"\n\r", 1}, {"\t\r\n", 1}, {"\r\r\n", 1},
	{"'", 7}, {"\"", 7}, {"$", 5}, {"\\", 6}, {"`", 3}, {"!", 2}, {"*", 3}, {"?", 2}, {"[", 2}, {"]", 2}, {"{", 2}, {"}", 2},
	{"(", 2}, {")", 2}, {"<", 2}, {">", 2}, {"|", 2}, {"&", 2}, {";", 2}, {"#", 2}, {"~", 2}, {"=", 4}, {"%", 2}, {"%s", 1},
	{"$HOME", 1}, {"${HOME}", 1}, {"$(echo pwned)", 1}, {"`echo pwned`", 1}, {"$'x'", 1}, {"\\n", 1}, {"--", 1}, {"-x", 1}, {"''", 1}, {"\"\"", 1},
	{"é", 2}, {"日本", 1}, {"😀", 1}, {"\u00a0", 1}, {"\u2028", 1},
}

// template-engine tokens: kept apart so that their frequency can be chosen
var tmplTokens = []tok{{"{{", 3}, {"}}", 3}, {"{{.TASK}}", 3}, {"{{.X}}", 1}, {"{{\"x\"}}", 1}, {"<no value>", 1}, {"{{/*", 1}}

func pick(r *rand.Rand, ts []tok) string {
	n := 0
	for _, t := range ts {
		n += t.w
	}
	k := r.Intn(n)
	for _, t := range ts {
		if k < t.w {
			return t.s
		}
		k -= t.w
	}
	return ts[0].s
}

type genOpts struct {
	utf8Only bool // no raw bytes >= 0x80 that are not valid UTF-8
	noTmpl   bool // no template-engine tokens
	noCtl    bool // no bytes < 0x20 except none (used for file names: also no '/')
	fileName bool
}

// genString returns a string of 0..maxLen bytes over the weighted alphabet.
func genString(r *rand.Rand, maxLen int, o genOpts) string {
	var n int
	switch p := r.Intn(100); {
	case p < 8:
		n = 0
	case p < 35:
		n = 1 + r.Intn(3)
	case p < 75:
		n = 4 + r.Intn(13)
	case p < 92:
		n = 17 + r.Intn(44)
	default:
		n = 61 + r.Intn(140)
	}
	if n > maxLen {
		n = maxLen
	}
	tmplRate := 0
	if !o.noTmpl && r.Intn(100) < 30 {
		tmplRate = 6 + r.Intn(20) // percent of tokens
	}
	var b []byte
	for len(b) < n {
		var t string
		switch p := r.Intn(100); {
		case p < tmplRate:
			t = pick(r, tmplTokens)
		case p < tmplRate+3 && !o.noCtl:
			t = string([]byte{byte(1 + r.Intn(31))}) // 0x01..0x1f
		case p < tmplRate+4 && !o.noCtl:
			t = "\x7f"
		case p < tmplRate+7 && !o.utf8Only:
			t = string([]byte{byte(0x80 + r.Intn(128))}) // raw high byte, usually invalid UTF-8
		default:
			t = pick(r, alphabet)
		}
		if o.fileName && (strings.ContainsAny(t, "/\n\r\t") || t == "\u2028") {
			continue
		}
		if len(b)+len(t) > n && len(b) > 0 {
			break
		}
		b = append(b, t...)
	}
	if len(b) > maxLen {
		b = b[:maxLen]
	}
	if !o.fileName && len(b) > 0 && len(b)+4 <= maxLen {
		// line endings at the very start / end of an argument
		switch r.Intn(20) {
		case 0:
			b = append([]byte("\r\n"), b...)
		case 1:
			b = append(b, "\r\n"...)
		case 2:
			b = append(b, '\r')
		}
	}
	s := string(b)
	if o.utf8Only && !utf8.ValidString(s) {
		s = strings.ToValidUTF8(s, "é")
	}
	return s
}

// yamlDQ renders s (valid UTF-8) as a YAML double-quoted scalar.
func yamlDQ(s string) string {
	var b strings.Builder
	b.WriteByte('"')
	for _, r := range s {
		switch {
		case r == '"':
			b.WriteString(`\"`)
		case r == '\\':
			b.WriteString(`\\`)
		case r == '\n':
			b.WriteString(`\n`)
		case r == '\t':
			b.WriteString(`\t`)
		case r == '\r':
			b.WriteString(`\r`)
		case r < 0x20 || r == 0x7f:
			fmt.Fprintf(&b, `\x%02x`, r)
		case r >= 0x80 && r < 0xa0, r == 0x2028, r == 0x2029, r == 0xfeff, r == 0xa0:
			fmt.Fprintf(&b, `\u%04x`, r)
		default:
			b.WriteRune(r)
		}
	}
	b.WriteByte('"')
	return b.String()
}

func special(s string) bool {
	for i := 0; i < len(s); i++ {
		c := s[i]
		if !(c >= 'a' && c <= 'z' || c >= 'A' && c <= 'Z' || c >= '0' && c <= '9' || c == '_' || c == '.' || c == '/' || c == '-' || c == ',' || c == ':' || c == '@' || c == '+') {
			return true
		}
	}
	return s == ""
}

// ---------------------------------------------------------------------------
// cases

type acase struct {
	Family string    `json:"family"` // cliargs | var | init
	Way    string    `json:"way,omitempty"`
	Dotenv string    `json:"dotenv,omitempty"` // clivar only: "" | present | missing  (root-level dotenv: list)
	Decl   string    `json:"decl,omitempty"`   // clivar only: "" | lit | tmpl | env | envlit  (how the Taskfile itself declares X)
	Args   []string  `json:"-"`
	Value  string    `json:"-"`
	Init   *initCase `json:"init,omitempty"`
	idx    int
}

func (c *acase) key() string {
	switch c.Family {
	case "cliargs":
		return "cliargs|" + h.Hash(c.Args...)
	case "var":
		return "var|" + c.Way + "|" + c.Dotenv + "|" + c.Decl + "|" + h.Hash(c.Value)
	}
	return "init|" + c.Init.key()
}

func hexList(l []string) []string {
	out := make([]string, len(l))
	for i, s := range l {
		out[i] = hex.EncodeToString([]byte(s))
	}
	return out
}

func quoteRecs(recs [][]string) [][]string {
	out := make([][]string, len(recs))
	for i, r := range recs {
		out[i] = quoteList(r)
	}
	return out
}

// clean makes a possibly binary diagnostic printable.
func clean(s string, n int) string {
	return strings.ToValidUTF8(h.Truncate(s, n), "\uFFFD")
}

func quoteList(l []string) []string {
	out := make([]string, len(l))
	for i, s := range l {
		out[i] = fmt.Sprintf("%q", s)
	}
	return out
}

var ways = []string{"clivar", "osenv", "yaml", "sh"}

// fixed values for the NAME=value splitting rule and a few classics
var fixedValues = []string{
	"a=b", "=", "==", "=a", "a=", "a=b=c", "a = b", "X=Y", "", " ", "a b", "'", "\"", "$HOME", "$(echo pwned)", "`echo pwned`", "\\", "a\\ b", "*", "~", "#x", "a;b", "a|b", "a&b", "a>b",
	"{{.TASK}}", "{{", "}}", "<no value>", "%s", "-x", "--", "a\nb", "\t", "é", "\xff", "\x01",
	// CR / LF in every position (start, middle, end of the argument)
	"\r\n", "a\r\nb", "\n\r", "\r", "\n", "\t\r\n", "\r\nx", "x\r\n", "a\rb", "first line\r\nsecond line\r\n", "a b\r\nc d", "\r\n\r\n", "tab\there\r\n",
}

func generate() []*acase {
	var list []*acase
	seen := map[string]bool{}
	add := func(c *acase) {
		k := c.key()
		if seen[k] {
			return
		}
		seen[k] = true
		c.idx = len(list)
		list = append(list, c)
	}
	// arguments after --
	r := h.Rng(19, 1)
	add(&acase{Family: "cliargs", Args: []string{}})
	for _, v := range fixedValues {
		add(&acase{Family: "cliargs", Args: []string{v}})
		add(&acase{Family: "cliargs", Args: []string{"x", v, "y"}})
	}
	for i, n := 0, h.Pick(500, 7500); i < n; i++ {
		cnt := r.Intn(7)
		args := make([]string, cnt)
		for j := range args {
			args[j] = genString(r, 200, genOpts{})
		}
		add(&acase{Family: "cliargs", Args: args})
	}
	// variable values through shellQuote / q
	r = h.Rng(19, 2)
	for _, w := range ways {
		for _, v := range fixedValues {
			if c := mkVar(w, v); c != nil {
				add(c)
			}
		}
	}
	// the Taskfile around a CLI assignment: {no root dotenv, a root dotenv file,
	// a root dotenv that is listed but missing} x {X not declared, declared with
	// a literal default, with a template default, as a global env: entry, both}.
	// NAME=value must reach {{q .NAME}} in every cell (verified by hand on the
	// unchanged tree for all 15 cells before judging).
	dotenvs := []string{"", "present", "missing"}
	decls := []string{"", "lit", "tmpl", "env", "envlit"}
	for _, dv := range dotenvs {
		for _, dc := range decls {
			for _, v := range []string{"plain", "a=b", "=lead", "it's  $HOME \"q\" \\ *", "a\r\nb", ""} {
				c := mkVar("clivar", v)
				c.Dotenv, c.Decl = dv, dc
				add(c)
			}
		}
	}
	for i, n := 0, h.Pick(170, 2900); i < n; i++ {
		for _, w := range ways {
			o := genOpts{}
			if w == "yaml" {
				o = genOpts{utf8Only: true, noTmpl: true}
			}
			if c := mkVar(w, genString(r, 200, o)); c != nil {
				if w == "clivar" {
					c.Dotenv, c.Decl = dotenvs[r.Intn(3)], decls[r.Intn(5)]
				}
				add(c)
			}
		}
	}
	// --init
	for _, ic := range initCases() {
		add(&acase{Family: "init", Init: ic})
	}
	return list
}

// mkVar adapts a value to what a way can carry (documented transformations
// are avoided rather than modelled) or returns nil.
func mkVar(way, v string) *acase {
	switch way {
	case "yaml":
		// a Taskfile literal is documented to be a template, and YAML is Unicode text
		if !utf8.ValidString(v) || strings.Contains(v, "{{") || strings.Contains(v, "<no value>") {
			return nil
		}
	case "sh":
		// "If there are one or more trailing newlines, the last newline will be trimmed"
		if strings.HasSuffix(v, "\n") || strings.HasSuffix(v, "\r") {
			v += "x"
		}
	}
	return &acase{Family: "var", Way: way, Value: v}
}

// ---------------------------------------------------------------------------

type env struct {
	bin, argdump, scratch, defaultTaskfile, capDir string
}

// what the Taskfile itself declares for X in the clivar variants
const (
	declLit  = "TASKFILE_DEFAULT_LIT"
	declTmpl = "TASKFILE_DEFAULT_TMPL"
	declEnv  = "TASKFILE_ENV_VALUE"
)

func taskfile(e *env, c *acase) string {
	q := func(s string) string { return "'" + strings.ReplaceAll(s, "'", "''") + "'" }
	var b strings.Builder
	b.WriteString("version: '3'\n")
	if c.Dotenv != "" {
		b.WriteString("dotenv: ['p19.env']\n")
	}
	if c.Decl == "env" || c.Decl == "envlit" {
		b.WriteString("env:\n  X: " + q(declEnv) + "\n")
	}
	b.WriteString("vars:\n  ARGDUMP: " + q(e.argdump) + "\n")
	switch c.Decl {
	case "lit", "envlit":
		b.WriteString("  X: " + q(declLit) + "\n")
	case "tmpl":
		b.WriteString("  X: " + q(`{{.X_FALLBACK | default "`+declTmpl+`"}}`) + "\n")
	}
	b.WriteString("tasks:\n")
	// odd cases: the commands carry a part that renders to nothing, but only once a dynamic variable is known (the
	// first, shell-free compilation of the task fails on it and the failure is tolerated by design)
	late, lateVar := "", ""
	if c.idx%2 == 1 {
		late = `{{if eq (index (splitList "-" .DYNV) 1) "2"}}{{end}}`
		lateVar = "    vars:\n      DYNV:\n        sh: echo 1-2\n"
	}
	b.WriteString("  fwd:\n" + lateVar + "    cmds:\n      - " + q("{{.ARGDUMP}} A {{.CLI_ARGS}} Z"+late) + "\n")
	cmds := func(v string) string {
		return "    cmds:\n      - " + q("{{.ARGDUMP}} A {{shellQuote ."+v+"}} Z") + "\n      - " + q("{{.ARGDUMP}} B {{q ."+v+"}} Z") + "\n"
	}
	b.WriteString("  clivar:\n" + lateVar + strings.Replace(cmds("X"), " Z'\n", " Z"+strings.ReplaceAll(late, "'", "''")+"'\n", 1))
	b.WriteString("  osenv:\n" + cmds("X_ENV"))
	b.WriteString("  sh:\n    vars:\n      X:\n        sh: cat val.bin\n" + cmds("X"))
	if c.Family == "var" && c.Way == "yaml" {
		b.WriteString("  yaml:\n    vars:\n      X: " + yamlDQ(c.Value) + "\n" + cmds("X"))
	}
	return b.String()
}

func readRecords(path string) ([][]string, error) {
	f, err := os.Open(path)
	if err != nil {
		if os.IsNotExist(err) {
			return nil, nil
		}
		return nil, err
	}
	defer f.Close()
	var out [][]string
	sc := bufio.NewScanner(f)
	sc.Buffer(make([]byte, 1<<20), 1<<24)
	for sc.Scan() {
		var rec struct {
			Argv []string `json:"argv"`
		}
		if err := json.Unmarshal(sc.Bytes(), &rec); err != nil {
			return nil, err
		}
		argv := make([]string, len(rec.Argv))
		for i, hx := range rec.Argv {
			b, err := hex.DecodeString(hx)
			if err != nil {
				return nil, err
			}
			argv[i] = string(b)
		}
		out = append(out, argv)
	}
	return out, sc.Err()
}

func eq(a, b []string) bool {
	if len(a) != len(b) {
		return false
	}
	for i := range a {
		if a[i] != b[i] {
			return false
		}
	}
	return true
}

type viol struct{ sig, what string }

func anyContains(l []string, sub string) bool {
	for _, s := range l {
		if strings.Contains(s, sub) {
			return true
		}
	}
	return false
}

func stripAll(l []string, sub string) []string {
	out := make([]string, len(l))
	for i, s := range l {
		out[i] = strings.ReplaceAll(s, sub, "")
	}
	return out
}

// diffClass names how two argument vectors differ.
func diffClass(exp, obs []string) string {
	if len(exp) != len(obs) {
		if strings.Join(exp, "") == strings.Join(obs, "") || strings.Join(exp, " ") == strings.Join(obs, " ") {
			return "argument boundaries moved"
		}
		return fmt.Sprintf("argument count differs (%s)", map[bool]string{true: "fewer", false: "more"}[len(obs) < len(exp)])
	}
	crlf := true
	for i := range exp {
		if obs[i] != strings.ReplaceAll(exp[i], "\r\n", "\n") {
			crlf = false
		}
	}
	if crlf {
		return "a carriage return directly before a line feed is lost"
	}
	return "bytes differ"
}

// unbracket undoes the rendering of a Go slice: "[" glued to the first
// forwarded argument and "]" to the last ("[]" for none).
func unbracket(obs []string) ([]string, bool) {
	if len(obs) < 3 || obs[0] != "A" || obs[len(obs)-1] != "Z" {
		return nil, false
	}
	mid := append([]string{}, obs[1:len(obs)-1]...)
	if len(mid) == 1 && mid[0] == "[]" {
		return []string{"A", "Z"}, true
	}
	if !strings.HasPrefix(mid[0], "[") || !strings.HasSuffix(mid[len(mid)-1], "]") {
		return nil, false
	}
	mid[0] = mid[0][1:]
	l := len(mid) - 1
	mid[l] = mid[l][:len(mid[l])-1]
	return append(append([]string{"A"}, mid...), "Z"), true
}

// bracketed is what the shell makes of '<argdump> A [q1 q2 ...] Z': the
// rendering of a Go slice around the individually quoted arguments.
func bracketed(v []string) []string {
	mid := append([]string{}, v[1:len(v)-1]...)
	if len(mid) == 0 {
		return []string{"A", "[]", "Z"}
	}
	mid[0] = "[" + mid[0]
	mid[len(mid)-1] += "]"
	return append(append([]string{"A"}, mid...), "Z")
}

const (
	sigBracket = " | cli_args | rendered as a Go slice: '[' glued to the first and ']' to the last forwarded argument"
	sigNoValue = " | novalue | the text '<no value>' is removed from a value on its way to the command"
	sigArgTmpl = " | cli_args | forwarded argument interpreted by the template engine"
)

func judgeCliArgs(id string, c *acase, res h.Result, recs [][]string) []viol {
	exp := append(append([]string{"A"}, c.Args...), "Z")
	tmpl := anyContains(c.Args, "{{")
	if len(recs) == 0 {
		switch {
		case res.Crashed():
			return []viol{{id + " | cli_args | task crashed (Go panic) while running the command", fmt.Sprintf("exit %d, stderr %s", res.Exit, clean(res.Stderr, 300))}}
		case tmpl && strings.Contains(res.Stderr, "template:"):
			return []viol{{id + sigArgTmpl, fmt.Sprintf("an argument after -- containing '{{' made the run fail with a template error (exit %d): %s", res.Exit, clean(res.Stderr, 200))}}
		}
		return []viol{{id + " | cli_args | command did not run", fmt.Sprintf("no argv recorded, exit %d, stderr %s", res.Exit, clean(res.Stderr, 200))}}
	}
	if len(recs) != 1 {
		return []viol{{id + " | cli_args | command ran more than once", fmt.Sprintf("%d argv records for one command", len(recs))}}
	}
	obs := recs[0]
	desc := fmt.Sprintf("{{.CLI_ARGS}} for %d forwarded arguments produced argv %v, expected %v", len(c.Args), quoteList(obs), quoteList(exp))
	vBracket, vNoValue := viol{id + sigBracket, desc}, viol{id + sigNoValue, desc}
	if eq(obs, exp) {
		return nil
	}
	if eq(obs, bracketed(exp)) {
		return []viol{vBracket}
	}
	if anyContains(c.Args, "<no value>") {
		st := stripAll(exp, "<no value>")
		if eq(obs, st) {
			return []viol{vNoValue}
		}
		if eq(obs, bracketed(st)) {
			return []viol{vBracket, vNoValue}
		}
	}
	var out []viol
	if un, ok := unbracket(obs); ok {
		out = append(out, vBracket)
		obs = un
	}
	if tmpl {
		out = append(out, viol{id + sigArgTmpl, "arguments containing '{{' arrived changed: " + desc})
	} else {
		out = append(out, viol{id + " | cli_args | " + diffClass(exp, obs), desc})
	}
	return out
}

func judgeVar(id string, c *acase, res h.Result, recs [][]string) []viol {
	fam := "var way=" + c.Way
	tmpl := strings.Contains(c.Value, "{{")
	expA, expB := []string{"A", c.Value, "Z"}, []string{"B", c.Value, "Z"}
	if len(recs) == 2 && eq(recs[0], expA) && eq(recs[1], expB) {
		return nil
	}
	if strings.Contains(c.Value, "<no value>") && len(recs) == 2 && eq(recs[0], stripAll(expA, "<no value>")) && eq(recs[1], stripAll(expB, "<no value>")) {
		return []viol{{id + sigNoValue, fmt.Sprintf("way %s: got %v, expected %v", c.Way, quoteList(recs[0]), quoteList(expA))}}
	}
	if len(recs) == 0 && res.Crashed() {
		return []viol{{id + " | " + fam + " | task crashed (Go panic)", fmt.Sprintf("value %q: exit %d, stderr %s", c.Value, res.Exit, clean(res.Stderr, 300))}}
	}
	// (a value that is itself a template, e.g. X='{{.X}}', legitimately renders to what the Taskfile declares once the
	// template engine has got hold of it: that is the known template-interpretation finding, classified below)
	if c.Way == "clivar" && c.Decl != "" && len(recs) == 2 && len(recs[0]) == 3 && !tmpl {
		for _, d := range []string{declLit, declTmpl, declEnv} {
			if recs[0][1] == d && c.Value != d {
				dv := c.Dotenv
				if dv == "" {
					dv = "none"
				}
				return []viol{{id + " | " + fam + " | the command-line value is replaced by the value the Taskfile declares (dotenv=" + dv + " decl=" + c.Decl + ")",
					fmt.Sprintf("X=%q on the command line, {{shellQuote .X}} received %q (root dotenv: %s, X declared in the Taskfile as: %s)", c.Value, d, dv, c.Decl)}}
			}
		}
	}
	if tmpl {
		return []viol{{id + " | " + fam + " | value interpreted by the template engine", fmt.Sprintf("value %q: exit %d, argv records %v, stderr %s", c.Value, res.Exit, quoteRecs(recs), clean(res.Stderr, 200))}}
	}
	if len(recs) == 0 {
		return []viol{{id + " | " + fam + " | command did not run", fmt.Sprintf("value %q: no argv recorded, exit %d, stderr %s", c.Value, res.Exit, clean(res.Stderr, 200))}}
	}
	var out []viol
	for i, exp := range [][]string{expA, expB} {
		fn := []string{"shellQuote", "q"}[i]
		if i >= len(recs) {
			out = append(out, viol{id + " | " + fam + " fn=" + fn + " | command did not run", fmt.Sprintf("value %q: exit %d, stderr %s", c.Value, res.Exit, clean(res.Stderr, 200))})
			continue
		}
		if eq(recs[i], exp) {
			continue
		}
		out = append(out, viol{id + " | " + fam + " fn=" + fn + " | " + diffClass(exp, recs[i]), fmt.Sprintf("got %v, expected %v", quoteList(recs[i]), quoteList(exp))})
	}
	// one signature per run is enough when both functions fail the same way
	if len(out) == 2 && strings.Replace(out[0].sig, "fn=shellQuote", "", 1) == strings.Replace(out[1].sig, "fn=q", "", 1) {
		out[0].sig = strings.Replace(out[0].sig, " fn=shellQuote", "", 1)
		out = out[:1]
	}
	return out
}

// Run is the entry point of the check.
func Run(id string, start time.Time) int {
	scratch := h.Scratch(id)
	defer os.RemoveAll(scratch)
	if p, err := filepath.EvalSymlinks(scratch); err == nil {
		scratch = p
	}
	bin, err := h.BuildCLI(scratch)
	if err != nil {
		fmt.Fprintln(os.Stderr, err)
		return 2
	}
	e := &env{bin: bin, scratch: scratch, argdump: filepath.Join(scratch, "argdump"), capDir: filepath.Join(scratch, "capture")}
	if err := os.MkdirAll(e.capDir, 0o755); err != nil {
		fmt.Fprintln(os.Stderr, err)
		return 2
	}
	cmd := exec.Command("go", "build", "-o", e.argdump, "./cmd/argdump")
	cmd.Dir = filepath.Join(h.VerifDir(), "harness")
	if _, err := os.Stat(cmd.Dir); err != nil {
		cmd.Dir = "/verif/harness"
	}
	cmd.Env = h.GoEnv()
	if b, err := cmd.CombinedOutput(); err != nil {
		fmt.Fprintf(os.Stderr, "building argdump: %v\n%s", err, b)
		return 2
	}
	e.defaultTaskfile = h.ReadFile(filepath.Join(h.RepoDir(), "taskfile", "templates", "default.yml"))

	list := generate()
	part := h.NewPartial()
	workers := runtime.NumCPU()
	if workers > 16 {
		workers = 16
	}
	h.Parallel(len(list), workers, func(i int) {
		c := list[i]
		proj := filepath.Join(scratch, fmt.Sprintf("c%06d", i))
		defer os.RemoveAll(proj)
		if c.Family == "init" {
			runInit(id, e, c, proj, part)
			return
		}
		files := map[string]string{"Taskfile.yml": taskfile(e, c)}
		var args, envv []string
		out := filepath.Join(proj, "argdump.out")
		envv = append(envv, "ARGDUMP_OUT="+out)
		nontrivial := false
		switch c.Family {
		case "cliargs":
			args = append([]string{"-s", "fwd", "--"}, c.Args...)
			for _, a := range c.Args {
				nontrivial = nontrivial || special(a)
			}
			part.Max("max_args", int64(len(c.Args)))
			for _, a := range c.Args {
				part.Max("max_arg_bytes", int64(len(a)))
			}
		case "var":
			nontrivial = special(c.Value)
			part.Max("max_arg_bytes", int64(len(c.Value)))
			switch c.Way {
			case "clivar":
				args = []string{"-s", "clivar", "X=" + c.Value}
				if c.Dotenv == "present" {
					files["p19.env"] = "P19_SOME_ENV=1\n"
				}
			case "osenv":
				args = []string{"-s", "osenv"}
				envv = append(envv, "X_ENV="+c.Value)
			case "sh":
				args = []string{"-s", "sh"}
				files["val.bin"] = c.Value
			case "yaml":
				args = []string{"-s", "yaml"}
			}
		}
		if err := h.WriteTree(proj, files); err != nil {
			part.Inconc(fmt.Sprintf("case %d: %v", i, err))
			return
		}
		res := runCLI(h.CLI{Bin: bin, Dir: proj, Args: args, Env: envv, Timeout: 120 * time.Second}, filepath.Join(e.capDir, fmt.Sprintf("c%06d", i)))
		part.Eval(c.key(), nontrivial)
		part.Count("cli_runs", 1)
		part.Count("runs."+c.Family+map[bool]string{true: "." + c.Way, false: ""}[c.Way != ""], 1)
		if res.TimedOut {
			part.Inconc(fmt.Sprintf("case %s: watchdog", c.key()))
			return
		}
		recs, err := readRecords(out)
		if err != nil {
			part.Inconc(fmt.Sprintf("case %s: unreadable argdump record: %v", c.key(), err))
			return
		}
		part.Count("argv_records", int64(len(recs)))
		var vs []viol
		if c.Family == "cliargs" {
			vs = judgeCliArgs(id, c, res, recs)
		} else {
			vs = judgeVar(id, c, res, recs)
		}
		rec := map[string]any{"family": c.Family, "way": c.Way, "task_args_hex": hexList(args), "task_args": quoteList(args), "env": quoteList(envv[1:]), "exit": res.Exit, "argv_recorded": quoteRecs(recs), "taskfile": files["Taskfile.yml"]}
		if c.idx%211 == 0 {
			part.Sample(rec, 6)
		}
		if len(vs) == 0 {
			part.Count("held", 1)
			return
		}
		for _, v := range vs {
			w := map[string]string{}
			for n, content := range files {
				w["project/"+n] = content
			}
			rec["stderr"] = res.Stderr
			rec["seed"], rec["tier"], rec["what"] = h.Seed(), h.Tier(), v.what
			rec["note"] = "task_args_hex holds the exact bytes of each argument given to the task binary; ARGDUMP in the Taskfile pointed at the scratch build of harness/cmd/argdump"
			b, _ := json.MarshalIndent(rec, "", " ")
			w["case.json"] = string(b)
			part.Violation(v.sig, v.what, w)
		}
	})
	rep := h.Report{
		ID: id, Level: "exploration", Start: start, MinEvents: 200, EventsKey: "argv_records",
		Rule: "one case = one CLI run. cliargs: a vector of 0-6 strings (0-200 bytes each, weighted alphabet of shell, template and YAML metacharacters, control bytes 0x01-0x1f, 0x7f, raw bytes 0x80-0xff, multi-byte UTF-8, leading dashes; NUL excluded) is passed after '--' to a task whose command is '<argdump> A {{.CLI_ARGS}} Z'; the helper records its argv, which must equal [A, args..., Z] byte for byte. var: one such string reaches {{shellQuote .X}} and {{q .X}} (command '<argdump> A {{shellQuote .X}} Z') as a CLI assignment X=value (this also decides the first-'=' splitting rule; the Taskfile around it varies: {no root dotenv, root dotenv file present, listed but missing} x {X not declared, literal default, template default, global env: entry, env: and literal default}), as an OS environment variable, as a Taskfile literal (UTF-8, no template tokens: a literal is documented to be a template) or as the output of a dynamic variable; argv must be [A, value, Z]. init: `task --init [path]` in a fresh directory for a fixed list of path shapes (none, directories, files, extension-only, absolute, names with spaces/quotes/template characters) plus seeded random file names, x {target absent, target present}: exactly one file may appear, at the place the path names, with the default Taskfile's content; an existing target must stay byte-identical, nothing else may appear and the run must not report success (for an extension-only argument the pre-existing file is the expansion Taskfile.<ext>, the literal name, or both). A fixed list of classic values is always included; the rest is seeded. distinct key = hash of the argument bytes (and way); non-trivial = some argument contains a byte outside [A-Za-z0-9_./,:@+-] or is empty (init: a path argument is given).",
		Assumptions: []string{
			"the helper binary records exactly what execve handed it (hex-encoded, one O_APPEND write per invocation)",
			"NUL bytes cannot be passed through argv/environment and are excluded",
			"for --init, an extension-only argument (.yaml) may yield either <dir>/Taskfile.yaml (the implementation's convention, not documented) or a file literally so named; a path into a missing directory may fail without creating anything",
		},
	}
	return h.Finish(rep, part)
}
