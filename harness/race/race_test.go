// Package race is engine E6: generated and hand-written concurrent workloads
// run free against the real task.Executor in a binary built with -race. The
// Go race detector is the oracle; cmd/box parses its log files.
package race

import (
	"bytes"
	"context"
	"fmt"
	"math/rand"
	"os"
	"path/filepath"
	"runtime"
	"strconv"
	"strings"
	"sync"
	"testing"

	"github.com/go-task/task/v3"
	"github.com/go-task/task/v3/internal/verifhook"
	"github.com/go-task/task/v3/taskfile/ast"
	"github.com/go-task/task/v3/verifh/gen"
	"github.com/go-task/task/v3/verifh/h"
)

// lockedBuf is the harness's own writer: mutex protected so that the monitor is not the race.
type lockedBuf struct {
	mu sync.Mutex
	b  bytes.Buffer
}

func (l *lockedBuf) Write(p []byte) (int, error) {
	l.mu.Lock()
	defer l.mu.Unlock()
	if l.b.Len() < 1<<20 {
		l.b.Write(p)
	}
	return len(p), nil
}

func (l *lockedBuf) String() string {
	l.mu.Lock()
	defer l.mu.Unlock()
	return l.b.String()
}

type workload struct {
	name     string
	files    map[string]string
	calls    []string
	vars     map[string]map[string]string // call -> vars
	parallel bool
	conc     int
	listToo  bool // list the tasks (concurrent compile) before running
	color    bool // Logger.Color on (the CLI default; the prefixed writer then keeps a colour per prefix)
	lines    int  // expected minimum number of output lines (observation check)
}

const hdr = "version: '3'\nsilent: true\n"

func targeted() []workload {
	var ws []workload
	// 32 concurrent calls of one task through a for-loop over deps
	ws = append(ws, workload{name: "for-deps-32", files: map[string]string{"Taskfile.yml": hdr + `
tasks:
  all:
    deps:
      - for: [1,2,3,4,5,6,7,8,9,10,11,12,13,14,15,16,17,18,19,20,21,22,23,24,25,26,27,28,29,30,31,32]
        task: work
        vars: {N: '{{.ITEM}}'}
  work:
    vars:
      DOUBLE: '{{.N}}{{.N}}'
    env:
      E: 'e{{.N}}'
    cmds:
      - printf 'work %s %s %s\n' '{{.N}}' '{{.DOUBLE}}' "$E"
`}, calls: []string{"all"}, lines: 32})
	// matrix rows resolved from a ref, many concurrent callers
	ws = append(ws, workload{name: "matrix-ref-concurrent", files: map[string]string{"Taskfile.yml": hdr + `
tasks:
  all:
    deps:
      - for: [a, b, c, d, e, f, g, h]
        task: mat
        vars: {WHO: '{{.ITEM}}'}
  mat:
    vars:
      LIST: ['{{.WHO}}1', '{{.WHO}}2', '{{.WHO}}3']
    cmds:
      - for:
          matrix:
            X: {ref: .LIST}
            Y: [p, q]
        cmd: printf 'mat %s %s %s\n' '{{.WHO}}' '{{.ITEM.X}}' '{{.ITEM.Y}}'
      - for:
          matrix:
            X: {ref: .LIST}
        task: leaf
        vars: {V: '{{.ITEM.X}}'}
  leaf:
    cmds:
      - printf 'leaf %s\n' '{{.V}}'
`}, calls: []string{"all"}, lines: 8 * 9})
	// dynamic variables evaluated by concurrent callers
	ws = append(ws, workload{name: "sh-vars-concurrent", files: map[string]string{"Taskfile.yml": hdr + `
vars:
  G: {sh: 'printf g'}
env:
  GE: {sh: 'printf ge'}
tasks:
  all:
    deps:
      - for: [1,2,3,4,5,6,7,8,9,10,11,12,13,14,15,16]
        task: dyn
        vars: {N: '{{.ITEM}}'}
  dyn:
    vars:
      V: {sh: 'printf v{{.N}}'}
      W: {sh: 'printf common'}
    env:
      TE: {sh: 'printf te{{.N}}'}
    cmds:
      - printf 'dyn %s %s %s %s %s %s\n' '{{.N}}' '{{.G}}' '{{.V}}' '{{.W}}' "$GE" "$TE"
`}, calls: []string{"all"}, lines: 16})
	// deduplicated tasks hit by 16 callers
	ws = append(ws, workload{name: "dedup-16-callers", files: map[string]string{"Taskfile.yml": hdr + `
tasks:
  all:
    deps:
      - for: [1,2,3,4,5,6,7,8,9,10,11,12,13,14,15,16]
        task: caller
        vars: {N: '{{.ITEM}}'}
  caller:
    deps:
      - once
      - task: wc
        vars: {K: '{{mod .N 3}}'}
    cmds:
      - task: once
      - task: wc
        vars: {K: '{{mod .N 2}}'}
      - printf 'caller %s\n' '{{.N}}'
  once:
    run: once
    cmds:
      - printf 'once\n'
  wc:
    run: when_changed
    cmds:
      - printf 'wc %s\n' '{{.K}}'
`}, calls: []string{"all"}, lines: 16})
	// --parallel roots with shared deps, plus listing at the same time
	ws = append(ws, workload{name: "parallel-roots+list", parallel: true, listToo: true, files: map[string]string{"Taskfile.yml": hdr + `
vars:
  GV: gv
tasks:
  r1: {desc: one, deps: [shared], cmds: ["printf 'r1 {{.GV}}\n'"]}
  r2: {desc: two, deps: [shared], cmds: ["printf 'r2 {{.GV}}\n'"]}
  r3: {desc: three, deps: [shared], cmds: [{task: shared}, "printf 'r3\n'"]}
  r4: {desc: four, sources: ['*.yml'], cmds: ["printf 'r4 {{.CHECKSUM}}\n'"]}
  shared:
    run: once
    vars: {SV: {sh: 'printf sv'}}
    cmds: ["printf 'shared {{.SV}}\n'"]
`}, calls: []string{"r1", "r2", "r3", "r4"}, lines: 4})
	// a deduplicated task is executing for one caller, a second caller waits for it, and an unrelated sibling fails
	// and cancels the group (and the same with the deduplicated task itself failing while two callers wait)
	for _, mode := range []string{"once", "when_changed"} {
		spin := func(n int) string { return fmt.Sprintf("i=0; while [ $i -lt %d ]; do i=$((i+1)); done", n) }
		for _, v := range []struct{ name, sharedTail, failer string }{
			{"sibling-fails", "printf 'shared\\n'", spin(1500) + "; exit 1"},
			{"shared-fails", "exit 3", spin(200000) + "; printf 'late\\n'"},
		} {
			tf := hdr + "tasks:\n  all:\n    deps: [a, b, c, failer]\n" +
				"  a:\n    deps: [shared]\n    cmds: [\"printf 'a\\n'\"]\n" +
				"  b:\n    cmds:\n      - task: shared\n      - printf 'b\\n'\n" +
				"  c:\n    deps: [shared]\n    cmds: [\"printf 'c\\n'\"]\n" +
				"  failer:\n    cmds:\n      - " + yamlQ(v.failer) + "\n" +
				"  shared:\n    run: " + mode + "\n    cmds:\n      - defer: printf 'shared-defer\\n'\n      - " + yamlQ(spin(20000)+"; "+v.sharedTail) + "\n"
			ws = append(ws, workload{name: "dedup-waiters-" + v.name + "-" + mode, files: map[string]string{"Taskfile.yml": tf}, calls: []string{"all"}})
			ws = append(ws, workload{name: "dedup-waiters-" + v.name + "-" + mode + "-C2", files: map[string]string{"Taskfile.yml": tf}, calls: []string{"all"}, conc: 2})
		}
	}
	// prefixed output with colour on: many distinct prefixes printing at the same moment, through external programs
	// (their output arrives on the copy goroutines of os/exec) and through builtins
	{
		var b strings.Builder
		b.WriteString(hdr + "output: prefixed\ntasks:\n  all:\n    deps: [")
		for i := 0; i < 12; i++ {
			fmt.Fprintf(&b, "c%d, ", i)
		}
		b.WriteString("]\n")
		for i := 0; i < 12; i++ {
			fmt.Fprintf(&b, "  c%d:\n    prefix: 'pfx-%d'\n    cmds:\n      - /bin/echo c%d-1; /bin/echo c%d-2 >&2; printf 'c%d-3\\n'\n      - cmd: /bin/echo c%d-4\n", i, i, i, i, i, i)
		}
		ws = append(ws, workload{name: "output-prefixed-colour", files: map[string]string{"Taskfile.yml": b.String()}, calls: []string{"all"}, lines: 24, color: true})
		ws = append(ws, workload{name: "output-prefixed-colour-parallel-roots", files: map[string]string{"Taskfile.yml": b.String()}, calls: []string{"c0", "c1", "c2", "c3", "c4", "c5"}, parallel: true, lines: 12, color: true})
	}
	// output wrappers with pipelines and background jobs inside one command
	for _, mode := range []string{"group", "prefixed", "interleaved"} {
		out := "output: " + mode + "\n"
		if mode == "group" {
			out = "output:\n  group:\n    begin: '<<{{.TASK}}'\n    end: '>>'\n"
		}
		ws = append(ws, workload{name: "output-" + mode + "-pipeline", files: map[string]string{"Taskfile.yml": hdr + out + `
tasks:
  all:
    deps: [p1, p2, p3, p4]
  p1:
    cmds:
      - "{ printf 'a1\n' >&2; printf 'a2\n' >&2; printf 'a3\n' >&2; } | { printf 'b1\n' >&2; printf 'b2\n' >&2; printf 'b3\n' >&2; }"
  p2:
    cmds:
      - "printf 'c1\nc2\nc3\n' & printf 'd1\nd2\nd3\n' >&2; wait"
  p3:
    cmds:
      - "printf 'e1\n'; printf 'e2\n' >&2; printf 'e3'"
      - "printf 'f1\n' | { read x; printf 'got %s\n' \"$x\"; printf 'f2\n' >&2; }"
  p4:
    cmds:
      - for: [1, 2, 3, 4]
        cmd: "printf 'g{{.ITEM}}\n'; printf 'h{{.ITEM}}\n' >&2"
`}, calls: []string{"all"}, lines: 4})
	}
	// shell options given at exactly one level (unsorted, with a duplicate), shared by concurrent commands
	for _, level := range []string{"global", "task", "cmd"} {
		g, tk, c := "", "", ""
		opts := "    set: [pipefail, errexit, pipefail]\n    shopt: [nullglob, globstar]\n"
		switch level {
		case "global":
			g = "set: [pipefail, errexit, pipefail]\nshopt: [nullglob, globstar]\n"
		case "task":
			tk = opts
		case "cmd":
			c = "        set: [pipefail, errexit, pipefail]\n        shopt: [nullglob, globstar]\n"
		}
		ws = append(ws, workload{name: "shell-options-" + level, files: map[string]string{"Taskfile.yml": hdr + g + `
tasks:
  all:
    deps:
      - for: [1,2,3,4,5,6,7,8]
        task: opt
        vars: {N: '{{.ITEM}}'}
  opt:
` + tk + `    cmds:
      - cmd: printf 'opt %s a\n' '{{.N}}'
` + c + `      - cmd: printf 'opt %s b\n' '{{.N}}'
` + c}, calls: []string{"all"}, lines: 16})
	}
	// the same fingerprinted task and many task attributes under concurrent callers
	ws = append(ws, workload{name: "kitchen-sink", listToo: true, files: map[string]string{"in.txt": "x\n", ".env": "DE=1\n", "Taskfile.yml": hdr + `
dotenv: ['.env']
env: {GE: ge}
vars: {GV: gv}
tasks:
  all:
    desc: everything
    aliases: [everything]
    deps:
      - for: [1,2,3,4,5,6]
        task: fp
        vars: {N: '{{.ITEM}}'}
      - for: [1,2,3,4,5,6]
        task: 'w-{{.ITEM}}'
      - for: [1,2,3]
        task: attrs
        vars: {N: '{{.ITEM}}'}
  fp:
    label: 'fp-{{.N}}'
    sources: ['in.txt']
    generates: ['out-{{.N}}.txt']
    method: checksum
    cmds:
      - printf 'fp %s %s\n' '{{.N}}' '{{.CHECKSUM}}' > 'out-{{.N}}.txt'
      - printf 'fp %s\n' '{{.N}}'
  'w-*':
    vars: {M: '{{index .MATCH 0}}'}
    cmds: ["printf 'wild {{.M}}\n'"]
  attrs:
    desc: 'attrs {{.N}}'
    summary: 'summary {{.N}}'
    prefix: 'p{{.N}}'
    platforms: [linux, darwin]
    requires: {vars: [N]}
    dir: 'd{{.N}}'
    env: {TE: 'te{{.N}}'}
    status: ['test -f nothing-{{.N}}']
    preconditions: [{sh: 'test 1 = 1', msg: ok}]
    interactive: false
    cmds:
      - cmd: printf 'attrs %s %s %s\n' '{{.N}}' "$TE" "$GE"
        platforms: [linux]
      - cmd: 'false'
        ignore_error: true
`}, calls: []string{"all"}, lines: 12})
	// many concurrent calls that name tasks which do not exist (each fails: not found, with a suggestion)
	ws = append(ws, workload{name: "missing-tasks-concurrent", parallel: true, files: map[string]string{"Taskfile.yml": hdr + `
tasks:
  build:linux: {cmds: ["printf 'linux\n'"]}
  build:darwin: {cmds: ["printf 'darwin\n'"]}
  upload-all:
    deps:
      - for: [linus, darwim, windws, linuxx, darvin, bsdd, plan8, solaris]
        task: 'build:{{.ITEM}}'
  also:
    cmds:
      - for: [a, b, c]
        task: 'uplaod-{{.ITEM}}'
        ignore_error: true
`}, calls: []string{"upload-all", "also", "build:linux"}})
	// wide include tree: sibling reader goroutines during Setup, then namespaced calls
	incl := map[string]string{}
	root := hdr + "includes:\n"
	for i := 0; i < 8; i++ {
		root += fmt.Sprintf("  n%d:\n    taskfile: ./inc%d.yml\n    vars: {IV: iv%d}\n", i, i, i)
		incl[fmt.Sprintf("inc%d.yml", i)] = fmt.Sprintf("version: '3'\nvars:\n  FV: fv%d\n  SHARED: s%d\nincludes:\n  deep: ./deep.yml\ntasks:\n  t:\n    deps: [deep:d]\n    cmds:\n      - printf 'inc %%s %%s %%s\\n' '{{.IV}}' '{{.FV}}' '{{.SHARED}}'\n", i, i)
	}
	incl["deep.yml"] = "version: '3'\nvars:\n  SHARED: deep\ntasks:\n  d:\n    cmds:\n      - printf 'deep {{.SHARED}}\\n'\n"
	root += "tasks:\n  all:\n    deps: [n0:t, n1:t, n2:t, n3:t, n4:t, n5:t, n6:t, n7:t]\n"
	incl["Taskfile.yml"] = root
	ws = append(ws, workload{name: "wide-includes", files: incl, calls: []string{"all"}, lines: 16})
	// dotenv, requires, defers, preconditions, status under concurrency with a limit
	ws = append(ws, workload{name: "misc-features-conc2", conc: 2, files: map[string]string{".env": "DE=dotenv\n", "Taskfile.yml": hdr + `
dotenv: ['.env']
tasks:
  all:
    deps:
      - for: [1,2,3,4,5,6,7,8]
        task: feat
        vars: {N: '{{.ITEM}}', RQ: 'v{{.ITEM}}'}
  feat:
    requires: {vars: [RQ]}
    preconditions: ['test 1 = 1']
    status: ['test {{.N}} -gt 4']
    dotenv: ['.env']
    cmds:
      - defer: "printf 'defer %s\n' '{{.N}}'"
      - defer: {task: leaf, vars: {V: 'd{{.N}}'}}
      - printf 'feat %s %s %s\n' '{{.N}}' '{{.RQ}}' "$DE"
      - task: leaf
        vars: {V: 'c{{.N}}'}
  leaf:
    cmds: ["printf 'leaf {{.V}}\n'"]
`}, calls: []string{"all"}, lines: 4})
	return ws
}

func yamlQ(s string) string { return "'" + strings.ReplaceAll(s, "'", "''") + "'" }

func spinHandler(rng *rand.Rand) func(point, detail string) {
	var mu sync.Mutex
	return func(point, detail string) {
		mu.Lock()
		n := rng.Intn(30)
		mu.Unlock()
		for i := 0; i < n; i++ {
			runtime.Gosched()
		}
	}
}

func runWorkload(w workload, dir string, part *h.Partial) {
	out, errw := &lockedBuf{}, &lockedBuf{}
	devnull, _ := os.Open(os.DevNull)
	defer devnull.Close()
	e := task.NewExecutor(
		task.WithDir(dir), task.WithStdin(devnull), task.WithStdout(out), task.WithStderr(errw),
		task.WithParallel(w.parallel), task.WithConcurrency(w.conc), task.WithVersionCheck(false), task.WithColor(w.color),
		task.WithAssumeYes(true),
	)
	if err := e.Setup(); err != nil {
		part.Inconc(w.name + ": setup: " + err.Error())
		return
	}
	mk := func(names []string) []*task.Call {
		var calls []*task.Call
		for _, c := range names {
			vars := ast.NewVars()
			for k, v := range w.vars[c] {
				vars.Set(k, ast.Var{Value: v})
			}
			calls = append(calls, &task.Call{Task: c, Vars: vars})
		}
		return calls
	}
	if w.listToo {
		// listing compiles every task concurrently (what --list does before anything runs)
		e.ListTasks(task.ListOptions{ListAllTasks: true})
		e.ListTasks(task.ListOptions{ListOnlyTasksWithDescriptions: true})
	}
	err := e.Run(context.Background(), mk(w.calls)...)
	n := strings.Count(out.String(), "\n")
	part.Count("output_lines_observed", int64(n))
	part.Count("runs", 1)
	if err != nil {
		part.Count("runs_returning_error", 1)
	}
	if w.lines > 0 && n < w.lines && err == nil {
		part.Inconc(fmt.Sprintf("%s: only %d output lines (expected >= %d); stderr: %s", w.name, n, w.lines, h.Truncate(errw.String(), 300)))
	}
}

// TestShard runs this shard's share of the workloads; races are reported by
// the race detector into GORACE's log_path.
func TestShard(t *testing.T) {
	out := os.Getenv("VERIF_E6_OUT")
	if out == "" {
		t.Skip("driven by cmd/box")
	}
	shard, _ := strconv.Atoi(os.Getenv("VERIF_E6_SHARD"))
	nshards, _ := strconv.Atoi(os.Getenv("VERIF_E6_NSHARDS"))
	if nshards == 0 {
		nshards = 1
	}
	part := h.NewPartial()
	work, _ := os.MkdirTemp(os.Getenv("VERIF_E6_WORK"), "race-")
	defer os.RemoveAll(work)
	reps := h.Pick(6, 120)
	nGen := h.Pick(64, 1200)
	procs := []int{2, 4, 16}
	idx := 0
	job := func() bool { idx++; return (idx-1)%nshards == shard }
	tws := targeted()
	for rep := 0; rep < reps; rep++ {
		for wi, w := range tws {
			if !job() {
				continue
			}
			runtime.GOMAXPROCS(procs[(rep+wi)%len(procs)])
			rng := h.Rng(18, int64(rep), int64(wi))
			if rep%2 == 1 {
				verifhook.Set(spinHandler(rng))
			} else {
				verifhook.Set(nil)
			}
			dir := filepath.Join(work, fmt.Sprintf("w%d-%d", wi, rep))
			os.MkdirAll(dir, 0o755)
			h.WriteTree(dir, w.files)
			runWorkload(w, dir, part)
			os.RemoveAll(dir)
			part.Eval(fmt.Sprintf("%s/procs=%d/spin=%v", w.name, procs[(rep+wi)%len(procs)], rep%2 == 1), true)
			part.SetAdd("workloads", w.name)
		}
	}
	for g := 0; g < nGen; g++ {
		if !job() {
			continue
		}
		rng := h.Rng(18, 1000, int64(g))
		p := gen.Generate(rng, "race")
		files := p.Render()
		dir := filepath.Join(work, fmt.Sprintf("g%d", g))
		os.MkdirAll(dir, 0o755)
		h.WriteTree(dir, files)
		w := workload{name: "generated", parallel: p.Parallel, conc: p.Conc, vars: map[string]map[string]string{}}
		for _, r := range p.Roots {
			name := p.RootName(r)
			w.calls = append(w.calls, name)
			vars := p.RootVars(r)
			w.vars[name] = vars
		}
		runtime.GOMAXPROCS(procs[g%len(procs)])
		if g%2 == 1 {
			verifhook.Set(spinHandler(rng))
		} else {
			verifhook.Set(nil)
		}
		for rep := 0; rep < 3; rep++ {
			runWorkload(w, dir, part)
		}
		os.RemoveAll(dir)
		var names []string
		for n := range files {
			names = append(names, n, files[n])
		}
		part.Eval("generated/"+h.Hash(names...), true)
		part.SetAdd("workloads", "generated")
		part.Sample(map[string]any{"workload": "generated", "program": p.Describe()}, 2)
	}
	verifhook.Set(nil)
	runtime.GOMAXPROCS(runtime.NumCPU())
	for _, w := range tws {
		part.Sample(map[string]any{"workload": w.name, "calls": w.calls, "parallel": w.parallel, "concurrency": w.conc}, 20)
	}
	if err := part.Save(out); err != nil {
		t.Fatal(err)
	}
}
