package p16

import (
	"math/rand"
	"strings"

	"gopkg.in/yaml.v3"

	"github.com/go-task/task/v3/verifh/h"
)

// Input is one generated case: a project directory, requests and assignments.
type Input struct {
	Index    int
	SeedName string
	Muts     []string          // mutators applied, in order
	Main     []byte            // Taskfile.yml
	Aux      map[string]string // other files of the project directory
	Requests []string          // generated task names to ask for (besides the file's own)
	Own      []string          // task names the harness could read out of the mutated file
	Focus    []string          // tasks a field-aware mutation touched: the CLI channel asks for these first
	Derived  []string          // requests derived from the input's own names and includes (star names, namespaces)
	Assigns  []string
	Insecure bool
	Remote   bool // TASK_X_REMOTE_TASKFILES=1 for the CLI
}

const auxInc = "version: '3'\nvars: {IV: inc}\ntasks:\n  default: echo inc-default\n  t: {cmds: ['echo inc {{.IV}}'], aliases: [tt]}\n  skipme: echo skip\n"

func baseAux() map[string]string {
	return map[string]string{
		"inc.yml":          auxInc,
		"dir/Taskfile.yml": "version: '3'\nincludes: {up: ../inc.yml}\ntasks:\n  d: echo dir\n",
		"emptydir/.keep":   "",
		".env":             "DOTENV_A=1\nDOTENV_B='two words'\n",
		"x.yml":            "version: '3'\ntasks: {x: echo x}\n",
		"#inc.yml":         auxInc,
		"onlydefault.yml":  "version: '3'\ntasks:\n  default:\n    desc: only\n    aliases: [od]\n    cmds: [echo only-default]\n",
		"nodefault.yml":    "version: '3'\ntasks:\n  a: echo a\n  b: {cmds: [echo b], aliases: [a2]}\n",
		"#x/Taskfile.yml":  "version: '3'\ntasks: {h: echo hash-dir}\n",
		// degenerate loop sources in an included task (deep-copied by the merge)
		"loops.yml": "version: '3'\ntasks:\n  default:\n    cmds:\n      - for: {var: L, matrix: {}}\n        cmd: echo {{.ITEM}}\n      - for: {matrix: {A: []}}\n        cmd: echo {{.ITEM.A}}\n      - for: []\n        cmd: echo {{.ITEM}}\n      - for: {var: NOPE}\n        task: default\n",
	}
}

// ownTasks reads the task names out of a (mutated) Taskfile, best effort.
func ownTasks(data []byte) (names []string) {
	defer func() { recover() }()
	var doc struct {
		Tasks yaml.Node `yaml:"tasks"`
	}
	if yaml.Unmarshal(data, &doc) != nil || doc.Tasks.Kind != yaml.MappingNode {
		return nil
	}
	for i := 0; i+1 < len(doc.Tasks.Content) && len(names) < 50; i += 2 {
		if k := doc.Tasks.Content[i]; k.Kind == yaml.ScalarNode {
			names = append(names, k.Value)
		}
	}
	return names
}

func fillStars(r *rand.Rand, p string) string {
	for strings.Contains(p, "*") {
		p = strings.Replace(p, "*", C15Word(r, 0, 2), 1)
	}
	return p
}

// NCLI is the number of inputs that also go to the CLI channel; the input right
// after them is the fixed dependency-ring slot (in-process channel only).
func NCLI(nSeeds int) int { return nSeeds + h.Pick(550, 8000) }

// GenInput builds input number i from the corpus. It is a pure function of
// (VERIF_SEED, i).
func GenInput(seeds []Seed, i int) Input {
	r := h.Rng(16, int64(i))
	in := Input{Index: i, Aux: baseAux(), Insecure: r.Intn(2) == 0, Remote: r.Intn(4) > 0}
	useAux := func(s Seed) {
		for k, v := range s.Aux {
			in.Aux[k] = v
		}
	}
	if i < len(seeds) {
		// the corpus itself, unchanged (baseline: these must all be handled)
		in.SeedName, in.Main, in.Muts = seeds[i].Name, seeds[i].Data, []string{MutNone}
		useAux(seeds[i])
	} else if i == NCLI(len(seeds)) {
		// one fixed slot for the dependency ring (each run of it costs a full CPU limit)
		in.SeedName, in.Main, in.Muts = "synthetic", depRing(30), []string{MutStructNest + ":dep-ring"}
	} else if r.Intn(25) == 0 {
		in.SeedName = "synthetic"
		var k string
		in.Main, k = hugeLexical(r, h.Thorough())
		in.Muts = []string{k}
	} else {
		s := seeds[r.Intn(len(seeds))]
		in.SeedName = s.Name
		data := s.Data
		useAux(s)
		// structure-aware stage
		if doc := parse(data); doc != nil && r.Intn(10) < 8 {
			changed := false
			n := [...]int{1, 1, 1, 1, 1, 2, 2, 2, 3, 3}[r.Intn(10)]
			for k := 0; k < n; k++ {
				switch x := r.Intn(20); {
				case x < 3:
					if f, ok := shellMutate(r, doc); ok {
						in.Muts = append(in.Muts, MutShell)
						if f != "" {
							in.Focus = append(in.Focus, f)
						}
						changed = true
					}
				case x < 5:
					if reqs, ok := includeOptions(r, doc); ok {
						in.Muts = append(in.Muts, MutIncOpts)
						in.Derived = append(in.Derived, reqs...)
						changed = true
					}
				case x < 15:
					if m := structMutate(r, doc); m != "" {
						in.Muts = append(in.Muts, m)
						changed = true
					}
				case x < 17:
					if _, ok := renameTask(r, doc); ok {
						in.Muts = append(in.Muts, MutName)
						changed = true
					}
				default:
					if setInclude(r, doc, IncludeLocations[r.Intn(len(IncludeLocations))]) {
						in.Muts = append(in.Muts, MutInclude)
						changed = true
					}
				}
			}
			if changed {
				if out, err := encode(doc); err == nil && len(out) <= 256<<10 {
					data = out
				} else {
					in.Muts = append(in.Muts, "encode-failed")
				}
			}
		}
		// lexical stage
		if len(in.Muts) == 0 || r.Intn(10) < 2 {
			n := 1
			if r.Intn(4) == 0 {
				n = 2
			}
			for k := 0; k < n; k++ {
				other := seeds[r.Intn(len(seeds))].Data
				out, m := lexMutate(r, data, other)
				if m != "" && len(out) <= MaxInput {
					data = out
					in.Muts = append(in.Muts, m)
				}
			}
		}
		in.Main = data
		// sometimes the included file is the mutated one and the root is sane
		if r.Intn(8) == 0 {
			in.Aux["inc.yml"] = string(data)
			in.Main = []byte("version: '3'\nincludes:\n  i: ./inc.yml\n  j:\n    taskfile: ./inc.yml\n    flatten: true\n    optional: true\ntasks:\n  default: echo root\n")
			in.Muts = append(in.Muts, "as-included-file")
			for k, f := range in.Focus {
				in.Focus[k] = "i:" + f
			}
		}
	}
	if len(in.Muts) == 0 {
		in.Muts = []string{MutNone}
	}
	in.Own = ownTasks(in.Main)
	// requests derived from every own name that contains '*'
	nStar := 0
	for _, n := range in.Own {
		if sr := StarRequests(n); sr != nil && nStar < 4 {
			nStar++
			in.Derived = append(in.Derived, sr...)
		}
	}
	if contains(in.Muts, "as-included-file") {
		// the names live under the namespace i (and flattened under j)
		for _, n := range ownTasks([]byte(in.Aux["inc.yml"])) {
			if sr := StarRequests(n); sr != nil && nStar < 4 {
				nStar++
				for _, q := range sr {
					in.Derived = append(in.Derived, "i:"+q, q)
				}
			}
		}
	}
	if len(in.Derived) > 40 {
		in.Derived = in.Derived[:40]
	}
	in.Requests = append(in.Requests, in.Derived...)
	// requests over the C15 alphabet: instances and near misses of own names, random words
	for _, n := range in.Own {
		if len(in.Requests) >= 4 {
			break
		}
		if strings.Contains(n, "*") {
			in.Requests = append(in.Requests, fillStars(r, n))
		}
	}
	if len(in.Own) > 0 {
		n := in.Own[r.Intn(len(in.Own))]
		in.Requests = append(in.Requests, n+C15Word(r, 1, 1))
		if len(n) > 1 {
			in.Requests = append(in.Requests, n[:len(n)-1])
		}
	}
	in.Requests = append(in.Requests, C15Word(r, 1, 4), "default", []string{"", "i:t", "i:", ":", "inc:t", "fz:x", "a:b:c", "*", "{{.X}}", "\x00", "\xff", strings.Repeat("a", 5000)}[r.Intn(12)])
	for k := r.Intn(3); k > 0; k-- {
		in.Assigns = append(in.Assigns, Assignments[r.Intn(len(Assignments))])
	}
	return in
}

// Files is the whole project directory.
func (in *Input) Files() map[string]string {
	f := map[string]string{}
	for k, v := range in.Aux {
		f[k] = v
	}
	// the mutated file is the only entry point of the directory
	for _, n := range []string{"Taskfile.yaml", "taskfile.yml", "taskfile.yaml", "Taskfile.dist.yml", "Taskfile.dist.yaml", "taskfile.dist.yml", "taskfile.dist.yaml"} {
		delete(f, n)
	}
	f["Taskfile.yml"] = string(in.Main)
	return f
}

// cliOK filters what can be passed as a task-name argument on the command line
// (a leading '-' is a flag, '=' an assignment, NUL cannot be in argv).
func cliOK(s string) bool {
	return !strings.HasPrefix(s, "-") && !strings.Contains(s, "=") && !strings.Contains(s, "\x00")
}
