package p16

import (
	"encoding/json"
	"os"
	"path/filepath"
	"testing"
)

// TestParseCrashOnWitnesses is a debugging aid: it prints the signature of every
// witness found under $P16_WITNESS_DIR.
func TestParseCrashOnWitnesses(t *testing.T) {
	dir := os.Getenv("P16_WITNESS_DIR")
	if dir == "" {
		t.Skip("P16_WITNESS_DIR not set")
	}
	ms, _ := filepath.Glob(filepath.Join(dir, "*", "case.json"))
	for _, m := range ms {
		b, _ := os.ReadFile(m)
		var c struct{ Stderr string }
		json.Unmarshal(b, &c)
		cr, ok := ParseCrash(c.Stderr)
		t.Logf("%s ok=%v site=%q frame=%q origin=%q", filepath.Base(filepath.Dir(m)), ok, cr.Site(), cr.Frame, cr.Origin)
	}
}
