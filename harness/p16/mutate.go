package p16

import (
	"bytes"
	"fmt"
	"math/rand"
	"strconv"
	"strings"
	"unicode/utf8"

	"gopkg.in/yaml.v3"
)

// every key the Taskfile schema knows (used for renames and insertions)
var schemaKeys = strings.Fields(`version vars env tasks includes dotenv output method run interval set shopt silent
 cmds cmd deps desc summary aliases sources generates status preconditions requires for matrix task defer platforms
 prompt internal dir label watch ignore_error sh ref map msg enum name list var split as taskfile optional flatten
 excludes checksum group prefixed interleaved begin end error_only exclude prefix interactive default <<`)

// the alphabet of property C15
var c15letters = []string{"a", "a", "a", "b", "b", ":", ":", ".", "*", "*", "-", "(", ")", "[", "+", "?", "^", "$", "|", "\\", "{", " "}

// C15Word is a random word over the C15 alphabet.
func C15Word(r *rand.Rand, minLen, maxLen int) string {
	n := minLen + r.Intn(maxLen-minLen+1)
	var b strings.Builder
	for i := 0; i < n; i++ {
		b.WriteString(c15letters[r.Intn(len(c15letters))])
	}
	return b.String()
}

// IncludeLocations are the include targets of the workload.
var IncludeLocations = []string{
	"https://example.com/foo/bar.git", "https://example.com/foo/bar.git//Taskfile.yml", "https://example.com/foo/bar.git//Taskfile.yml?ref=main",
	"https://example.com/foo/bar.git//", "https://example.com/foo/bar.git//dir/", "http://example.com/foo/bar.git", "http://example.com/foo/bar.git//x.yml",
	"git@example.com:foo/bar.git", "git@example.com:foo/bar.git//x.yml", "ssh://git@example.com/foo.git", "ssh://git@example.com/foo.git//x.yml?ref=v1",
	"git://example.com/foo.git", "git://example.com/foo.git//a//b", ".git", "x.git", "./x.git//y", "https://.git", "https://a/.git//",
	"http://127.0.0.1:1/Taskfile.yml", "https://127.0.0.1:1/Taskfile.yml", "http://127.0.0.1:1/", "http://127.0.0.1:1", "http://", "https://", "http:", "https:/x",
	"http://%zz", "http://[::1", "http://user:pw@127.0.0.1:1/a b.yml", "https://127.0.0.1:1/x.yml?ref=%", "://", "", " ", ".", "./", "..", "/", "//", "dir", "./dir", "dir/",
	"emptydir", "./Taskfile.yml", "Taskfile.yml", "inc.yml", "./inc.yml", "missing.yml", "~", "~/", "~/x.yml", "~nouser/x.yml", "$HOME/x.yml", "$VAR", "${UNSET}",
	"${", "$(echo x)", "`echo x`", "{{.X}}", "{{", "{{.HOME}}/x.yml", "{{.TASKFILE_DIR}}/inc.yml", "file:///etc/hostname", "ftp://127.0.0.1/x.yml", "-", "*", "a\x00b",
	"#inc.yml", "#", " #x", "\\\n", "'", "$(", "`", "~nosuchuser", "*[", "{a,", "[\xaa]", ";", "&&", "<(", "inc.yml #c",
	"C:\\x\\Taskfile.yml", "\\\\host\\share", strings.Repeat("a/", 300) + "x.yml", strings.Repeat("../", 40) + "etc/hostname", "inc.yml ", "./dir/../inc.yml",
}

// Assignments are NAME=value arguments of the workload.
var Assignments = []string{
	"A=1", "A=", "=", "=x", "A==", "A=b=c", "CLI_ARGS=x", "TASK=foo", "MATCH=1", "A={{.B}}", "A={{", "A={{.A}}", "a b=c", "A=\x00", "A=\xff\xfe", "S=other",
	"N=43", "L=[1,2]", "ITEM=x", "ROOT_DIR=/", "TASKFILE_DIR=", "USER_WORKING_DIR=..", "A=" + strings.Repeat("x", 70000), "{{.X}}=1", "A=$(echo x)", "A=`x`", "X=1",
}

var oddScalars = []string{"", "~", "null", "true", "false", "yes", "on", "1", "-1", "0", "3", "3.0", "99999999999999999999", "-99999999999999999999",
	"9223372036854775807", "9223372036854775808", "1e999", "-1e999", "0x7fffffffffffffff", "0o777", "0b1", ".inf", "-.inf", ".nan", "1_000", "012", "+1", "1.",
	"{{.X}}", "{{", "}}", "{{.", "{{end}}", "{{range}}", "{{template \"x\"}}", "{{index .MATCH 5}}", "{{.MATCH}}", "{{printf \"%s\"}}", "{{\"", "a(", "*", "**", ":", "::",
	"<<", "-", "- -", "?", "|", ">", "!", "!!", "&", "&a", "*a", "%", "@", "`", "#", " ", "\t", "\n", "\r", "a\x00b", "\xff", "2001-01-01", "2001-01-01T00:00:00Z",
	"#x", " #x", "\\\n", "$(", "${", "~nosuchuser", "*[", "{a,", "&&", "<(",
	"1s", "-1s", "1", "abc", "1h1", "9999999h", "linux", "linux/", "/amd64", "windows/arm", "checksum", "timestamp", "none", "always", "once", "when_changed",
	"interleaved", "group", "prefixed", "sources", "3", "3.0.0", "v3", "2", "4", "3.99999", "3.x", ".", "..", "/", "~", "$HOME", "default"}

// Kind names for the evidence.
const (
	MutNone          = "none"
	MutStructReplace = "struct:replace-node"
	MutStructKey     = "struct:key-op"
	MutStructInsert  = "struct:insert-schema-key"
	MutStructNumStr  = "struct:number<->string"
	MutStructNest    = "struct:deep-nesting"
	MutStructAlias   = "struct:alias/anchor"
	MutLexLineEnd    = "lex:line-terminators"
	MutLexBOM        = "lex:bom"
	MutLexTabs       = "lex:tabs"
	MutLexNUL        = "lex:nul"
	MutLexUTF8       = "lex:invalid-utf8"
	MutLexTrunc      = "lex:truncate"
	MutLexSplice     = "lex:splice"
	MutLexBytes      = "lex:byte-edits"
	MutName          = "name:c15-alphabet"
	MutInclude       = "include:location"
)

type nodeRef struct {
	n      *yaml.Node
	parent *yaml.Node
	idx    int // index in parent.Content
}

func collect(n, parent *yaml.Node, idx int, out *[]nodeRef, depth int) {
	if n == nil || depth > 200 {
		return
	}
	*out = append(*out, nodeRef{n, parent, idx})
	for i, c := range n.Content {
		collect(c, n, i, out, depth+1)
	}
}

func scalar(v string) *yaml.Node {
	n := &yaml.Node{Kind: yaml.ScalarNode, Value: v}
	return n
}

func strScalar(v string) *yaml.Node {
	if !utf8.ValidString(v) {
		// the encoder turns an untagged invalid string into !!binary, which decodes to the raw bytes
		return &yaml.Node{Kind: yaml.ScalarNode, Value: v, Style: yaml.DoubleQuotedStyle}
	}
	return &yaml.Node{Kind: yaml.ScalarNode, Tag: "!!str", Value: v, Style: yaml.DoubleQuotedStyle}
}

func randScalar(r *rand.Rand) *yaml.Node {
	v := oddScalars[r.Intn(len(oddScalars))]
	switch r.Intn(6) {
	case 0:
		return strScalar(v)
	case 1:
		return &yaml.Node{Kind: yaml.ScalarNode, Value: v, Style: yaml.LiteralStyle}
	case 2:
		return &yaml.Node{Kind: yaml.ScalarNode, Tag: []string{"!!int", "!!bool", "!!float", "!!null", "!!binary", "!!timestamp", "!!map", "!!seq", "!foo"}[r.Intn(9)], Value: v}
	}
	return scalar(v)
}

// randValue builds a small random value of a random shape.
func randValue(r *rand.Rand, depth int) *yaml.Node {
	switch x := r.Intn(12); {
	case x < 4 || depth > 2:
		return randScalar(r)
	case x == 4:
		return &yaml.Node{Kind: yaml.ScalarNode, Tag: "!!null", Value: "null"}
	case x == 5:
		return &yaml.Node{Kind: yaml.MappingNode, Style: yaml.FlowStyle} // {}
	case x == 6:
		return &yaml.Node{Kind: yaml.SequenceNode, Style: yaml.FlowStyle} // []
	case x < 9:
		n := &yaml.Node{Kind: yaml.SequenceNode}
		for i := r.Intn(3) + 1; i > 0; i-- {
			n.Content = append(n.Content, randValue(r, depth+1))
		}
		return n
	default:
		n := &yaml.Node{Kind: yaml.MappingNode}
		for i := r.Intn(3) + 1; i > 0; i-- {
			var k *yaml.Node
			if r.Intn(3) == 0 {
				k = randValue(r, 3) // odd key (maybe non-string, maybe null)
			} else {
				k = scalar(schemaKeys[r.Intn(len(schemaKeys))])
			}
			n.Content = append(n.Content, k, randValue(r, depth+1))
		}
		return n
	}
}

// encode serialises a node tree; the encoder may reject (panic on) odd trees.
func encode(doc *yaml.Node) (out []byte, err error) {
	defer func() {
		if p := recover(); p != nil {
			err = fmt.Errorf("encoder: %v", p)
		}
	}()
	var buf bytes.Buffer
	enc := yaml.NewEncoder(&buf)
	enc.SetIndent(2)
	if err := enc.Encode(doc); err != nil {
		return nil, err
	}
	enc.Close()
	return buf.Bytes(), nil
}

// parse returns the document node of data, or nil.
func parse(data []byte) (doc *yaml.Node) {
	defer func() {
		if recover() != nil {
			doc = nil
		}
	}()
	var n yaml.Node
	if err := yaml.Unmarshal(data, &n); err != nil || n.Kind != yaml.DocumentNode || len(n.Content) == 0 {
		return nil
	}
	return &n
}

// deepCopy copies a subtree; aliases are copied as aliases (same target), anchors
// are dropped, and the copy is bounded in depth and node count.
func deepCopy(n *yaml.Node, depth int) *yaml.Node {
	budget := 2000
	return deepCopyB(n, depth, &budget)
}

func deepCopyB(n *yaml.Node, depth int, budget *int) *yaml.Node {
	*budget--
	if n == nil || depth > 60 || *budget < 0 {
		return scalar("x")
	}
	c := *n
	if n.Kind == yaml.AliasNode {
		return &c
	}
	c.Anchor = ""
	c.Content = nil
	for _, ch := range n.Content {
		c.Content = append(c.Content, deepCopyB(ch, depth+1, budget))
	}
	return &c
}

// MaxInput bounds the size of a generated Taskfile (bytes).
const MaxInput = 2 << 20

// structMutate applies one structure-aware mutation to the tree.
func structMutate(r *rand.Rand, doc *yaml.Node) string {
	var refs []nodeRef
	collect(doc.Content[0], doc, 0, &refs, 0)
	if len(refs) == 0 {
		return ""
	}
	pick := func(pred func(nodeRef) bool) (nodeRef, bool) {
		var c []nodeRef
		for _, x := range refs {
			if pred(x) {
				c = append(c, x)
			}
		}
		if len(c) == 0 {
			return nodeRef{}, false
		}
		return c[r.Intn(len(c))], true
	}
	isValue := func(x nodeRef) bool { // a node that is not a mapping key
		return x.parent != nil && !(x.parent.Kind == yaml.MappingNode && x.idx%2 == 0)
	}
	isMap := func(x nodeRef) bool { return x.n.Kind == yaml.MappingNode }
	switch op := r.Intn(20); {
	case op < 7: // replace any node by a value of another shape
		x, ok := pick(func(x nodeRef) bool { return x.parent != nil })
		if !ok {
			return ""
		}
		x.parent.Content[x.idx] = randValue(r, 0)
		return MutStructReplace
	case op < 11: // key operations
		x, ok := pick(func(x nodeRef) bool { return isMap(x) && len(x.n.Content) >= 2 })
		if !ok {
			return ""
		}
		m := x.n
		k := r.Intn(len(m.Content)/2) * 2
		switch r.Intn(5) {
		case 0: // rename to a schema key
			m.Content[k] = scalar(schemaKeys[r.Intn(len(schemaKeys))])
		case 1: // rename to an odd scalar / non-scalar key
			m.Content[k] = randValue(r, 2)
		case 2: // duplicate
			m.Content = append(m.Content, deepCopy(m.Content[k], 0), deepCopy(m.Content[k+1], 0))
		case 3: // drop
			m.Content = append(m.Content[:k:k], m.Content[k+2:]...)
		case 4: // swap two values
			k2 := r.Intn(len(m.Content)/2) * 2
			m.Content[k+1], m.Content[k2+1] = m.Content[k2+1], m.Content[k+1]
		}
		return MutStructKey
	case op < 14: // insert a schema key with a value of random shape
		x, ok := pick(isMap)
		if !ok {
			return ""
		}
		x.n.Content = append(x.n.Content, scalar(schemaKeys[r.Intn(len(schemaKeys))]), randValue(r, 0))
		return MutStructInsert
	case op < 16: // numbers <-> strings, huge ints
		x, ok := pick(func(x nodeRef) bool { return x.n.Kind == yaml.ScalarNode && isValue(x) })
		if !ok {
			return ""
		}
		switch r.Intn(4) {
		case 0:
			x.n.Tag, x.n.Style = "!!str", yaml.DoubleQuotedStyle
			if _, err := strconv.Atoi(x.n.Value); err != nil {
				x.n.Value = strconv.Itoa(r.Intn(5))
			}
		case 1:
			x.n.Tag, x.n.Style, x.n.Value = "", 0, strconv.Itoa(r.Intn(100)-10)
		case 2:
			x.n.Tag, x.n.Style, x.n.Value = "", 0, []string{"99999999999999999999999", "18446744073709551616", "-9223372036854775809", "1e400", "0x1" + strings.Repeat("0", 40)}[r.Intn(5)]
		case 3:
			x.n.Tag, x.n.Style, x.n.Value = "", 0, []string{"1.5", "true", "null", "~", ".inf"}[r.Intn(5)]
		}
		return MutStructNumStr
	case op < 18: // deep nesting around a node
		x, ok := pick(isValue)
		if !ok {
			return ""
		}
		depth := []int{2, 5, 30, 200}[r.Intn(4)]
		inner := x.n
		for i := 0; i < depth; i++ {
			if r.Intn(2) == 0 {
				inner = &yaml.Node{Kind: yaml.SequenceNode, Style: yaml.FlowStyle, Content: []*yaml.Node{inner}}
			} else {
				inner = &yaml.Node{Kind: yaml.MappingNode, Style: yaml.FlowStyle, Content: []*yaml.Node{scalar(schemaKeys[r.Intn(len(schemaKeys))]), inner}}
			}
		}
		x.parent.Content[x.idx] = inner
		return MutStructNest
	default: // anchor somewhere, alias elsewhere
		a, ok := pick(isValue)
		b, ok2 := pick(func(x nodeRef) bool { return x.parent != nil })
		if !ok || !ok2 || a.n == b.n || a.n.Kind == yaml.AliasNode {
			return ""
		}
		a.n.Anchor = "fz"
		b.parent.Content[b.idx] = &yaml.Node{Kind: yaml.AliasNode, Value: "fz", Alias: a.n}
		return MutStructAlias
	}
}

// setInclude points an include of the document at loc (adds one if needed).
func setInclude(r *rand.Rand, doc *yaml.Node, loc string) bool {
	root := doc.Content[0]
	if root.Kind != yaml.MappingNode {
		return false
	}
	var incs *yaml.Node
	for i := 0; i+1 < len(root.Content); i += 2 {
		if root.Content[i].Value == "includes" && root.Content[i+1].Kind == yaml.MappingNode {
			incs = root.Content[i+1]
		}
	}
	if incs == nil {
		incs = &yaml.Node{Kind: yaml.MappingNode}
		root.Content = append(root.Content, scalar("includes"), incs)
	}
	var val *yaml.Node
	switch r.Intn(3) {
	case 0:
		val = strScalar(loc)
	default:
		val = &yaml.Node{Kind: yaml.MappingNode, Content: []*yaml.Node{scalar("taskfile"), strScalar(loc)}}
		if r.Intn(2) == 0 {
			val.Content = append(val.Content, scalar("dir"), strScalar(IncludeLocations[r.Intn(len(IncludeLocations))]))
		}
		if r.Intn(3) == 0 {
			val.Content = append(val.Content, scalar("optional"), scalar("true"))
		}
		if r.Intn(4) == 0 {
			val.Content = append(val.Content, scalar("flatten"), scalar("true"))
		}
	}
	if len(incs.Content) >= 2 && r.Intn(2) == 0 {
		incs.Content[r.Intn(len(incs.Content)/2)*2+1] = val
	} else {
		incs.Content = append(incs.Content, strScalar([]string{"fz", "a", "a:b", "", "*", "default"}[r.Intn(6)]), val)
	}
	return true
}

// renameTask gives a task of the document a name over the C15 alphabet.
func renameTask(r *rand.Rand, doc *yaml.Node) (string, bool) {
	root := doc.Content[0]
	if root.Kind != yaml.MappingNode {
		return "", false
	}
	for i := 0; i+1 < len(root.Content); i += 2 {
		if root.Content[i].Value == "tasks" && root.Content[i+1].Kind == yaml.MappingNode {
			ts := root.Content[i+1]
			name := C15Word(r, 1, 4)
			if r.Intn(3) == 0 {
				name = patternName(r)
			}
			if len(ts.Content) >= 2 && r.Intn(3) > 0 {
				k := r.Intn(len(ts.Content)/2) * 2
				ts.Content[k] = strScalar(name)
			} else {
				ts.Content = append(ts.Content, strScalar(name), &yaml.Node{Kind: yaml.MappingNode, Content: []*yaml.Node{
					scalar("cmds"), {Kind: yaml.SequenceNode, Content: []*yaml.Node{strScalar("echo {{.MATCH}}")}},
					scalar("aliases"), {Kind: yaml.SequenceNode, Style: yaml.FlowStyle, Content: []*yaml.Node{strScalar(C15Word(r, 1, 3))}},
				}})
			}
			return name, true
		}
	}
	return "", false
}

// patternName is a wildcard task name with literal text around its stars, e.g.
// "a:*:b" (the text before and after a star may share a character).
func patternName(r *rand.Rand) string {
	lit := func(min, max int) string { return strings.ReplaceAll(C15Word(r, min, max), "*", "a") }
	c := c15letters[r.Intn(len(c15letters))]
	if c == "*" {
		c = ":"
	}
	switch r.Intn(6) {
	case 0, 1: // prefix and suffix meet in the same character
		return lit(0, 2) + c + "*" + c + lit(0, 2)
	case 2:
		return lit(1, 3) + "*" + lit(1, 3)
	case 3:
		return lit(1, 2) + "*"
	case 4:
		return "*" + lit(1, 2)
	default:
		return lit(0, 2) + c + "*" + c + "*" + c + lit(0, 2)
	}
}

// StarRequests derives requests from a task name that contains '*': the name
// without its stars, with text before and after a star overlapping, each side
// alone, the name itself, and the pattern instantiated with ”, 'x' and ':'.
func StarRequests(name string) []string {
	if !strings.Contains(name, "*") {
		return nil
	}
	i, j := strings.Index(name, "*"), strings.LastIndex(name, "*")
	prefix, suffix := name[:i], name[j+1:]
	out := []string{prefix + suffix, prefix, suffix, name}
	if len(suffix) > 0 {
		out = append(out, prefix+suffix[1:])
	}
	if len(prefix) > 0 {
		out = append(out, prefix[:len(prefix)-1]+suffix)
	}
	if len(prefix) > 0 && len(suffix) > 0 {
		out = append(out, prefix[:len(prefix)-1]+suffix[1:])
	}
	for _, fill := range []string{"", "x", ":"} {
		out = append(out, strings.ReplaceAll(name, "*", fill))
	}
	seen := map[string]bool{}
	var uniq []string
	for _, o := range out {
		if !seen[o] {
			seen[o] = true
			uniq = append(uniq, o)
		}
	}
	return uniq
}

// MutIncOpts adds an include with a combination of options to a multi-file input.
const MutIncOpts = "include:options"

// includeOptions adds an include of one of the auxiliary Taskfiles under a
// namespace and with options that interact: excludes naming default / every
// task / a task that does not exist, aliases clashing with task names, flatten,
// internal, a file with only a default task, a namespace equal to a task name.
// It returns requests worth asking for.
func includeOptions(r *rand.Rand, doc *yaml.Node) (reqs []string, ok bool) {
	root := doc.Content[0]
	if root.Kind != yaml.MappingNode {
		return nil, false
	}
	incs := mapGet(root, "includes")
	if incs == nil || incs.Kind != yaml.MappingNode {
		incs = &yaml.Node{Kind: yaml.MappingNode}
		mapSet(root, "includes", incs)
	}
	var rootTasks []string
	if ts := mapGet(root, "tasks"); ts != nil && ts.Kind == yaml.MappingNode {
		for i := 0; i+1 < len(ts.Content); i += 2 {
			if ts.Content[i].Kind == yaml.ScalarNode {
				rootTasks = append(rootTasks, ts.Content[i].Value)
			}
		}
	}
	type auxFile struct {
		path  string
		tasks []string
	}
	f := []auxFile{
		{"./inc.yml", []string{"default", "t", "skipme"}},
		{"./onlydefault.yml", []string{"default"}},
		{"./nodefault.yml", []string{"a", "b"}},
		{"./dir", []string{"d"}},
	}[r.Intn(4)]
	ns := []string{"fzo", "fzo", "o", "default", "t", "a:b"}[r.Intn(6)]
	if len(rootTasks) > 0 && r.Intn(3) == 0 {
		ns = rootTasks[r.Intn(len(rootTasks))] // namespace equal to a task name of the parent
	}
	m := &yaml.Node{Kind: yaml.MappingNode, Content: []*yaml.Node{scalar("taskfile"), strScalar(f.path)}}
	seq := func(items ...string) *yaml.Node {
		n := &yaml.Node{Kind: yaml.SequenceNode, Style: yaml.FlowStyle}
		for _, it := range items {
			n.Content = append(n.Content, strScalar(it))
		}
		return n
	}
	switch r.Intn(8) {
	case 0, 1, 2:
		mapSet(m, "excludes", seq("default"))
	case 3:
		mapSet(m, "excludes", seq(f.tasks...)) // every task
	case 4:
		mapSet(m, "excludes", seq("nosuchtask", f.tasks[r.Intn(len(f.tasks))]))
	case 5:
		mapSet(m, "excludes", seq())
	}
	if r.Intn(3) == 0 {
		mapSet(m, "flatten", scalar("true"))
	}
	if r.Intn(3) == 0 {
		mapSet(m, "internal", scalar("true"))
	}
	if r.Intn(2) == 0 {
		// aliases of the namespace that clash with task names / the namespace / each other
		cands := append([]string{ns, "default", "t", "x", "fzo"}, rootTasks...)
		mapSet(m, "aliases", seq(cands[r.Intn(len(cands))], cands[r.Intn(len(cands))]))
	}
	if r.Intn(4) == 0 {
		mapSet(m, "optional", scalar("true"))
	}
	if r.Intn(4) == 0 {
		mapSet(m, "vars", &yaml.Node{Kind: yaml.MappingNode, Content: []*yaml.Node{scalar("IV"), strScalar("opt")}})
	}
	incs.Content = append(incs.Content, strScalar(ns), m)
	reqs = []string{ns, ns + ":default", ns + ":" + f.tasks[len(f.tasks)-1], "default", f.tasks[0]}
	return reqs, true
}

// lexMutate applies one byte-level mutation.
func lexMutate(r *rand.Rand, data []byte, other []byte) ([]byte, string) {
	s := string(data)
	switch r.Intn(17) {
	case 0:
		return []byte(strings.ReplaceAll(s, "\n", "\r")), MutLexLineEnd + ":CR"
	case 1:
		return []byte(strings.ReplaceAll(s, "\n", "\r\n")), MutLexLineEnd + ":CRLF"
	case 2:
		return []byte(strings.ReplaceAll(s, "\n", "\u0085")), MutLexLineEnd + ":NEL"
	case 3:
		return []byte(strings.ReplaceAll(s, "\n", []string{"\u2028", "\u2029"}[r.Intn(2)])), MutLexLineEnd + ":LS/PS"
	case 4: // mixed terminators, line by line
		var b strings.Builder
		for _, l := range strings.SplitAfter(s, "\n") {
			if strings.HasSuffix(l, "\n") {
				l = l[:len(l)-1] + []string{"\n", "\r", "\r\n", "\u0085", "\u2028", "\n\r"}[r.Intn(6)]
			}
			b.WriteString(l)
		}
		return []byte(b.String()), MutLexLineEnd + ":mixed"
	case 5:
		bom := [][]byte{{0xEF, 0xBB, 0xBF}, {0xFF, 0xFE}, {0xFE, 0xFF}, {0xEF, 0xBB, 0xBF, 0xEF, 0xBB, 0xBF}}[r.Intn(4)]
		if r.Intn(4) == 0 && len(data) > 0 { // BOM in the middle
			i := r.Intn(len(data))
			return append(append(append([]byte{}, data[:i]...), bom...), data[i:]...), MutLexBOM
		}
		return append(append([]byte{}, bom...), data...), MutLexBOM
	case 6: // UTF-16 re-encoding with BOM
		var b bytes.Buffer
		le := r.Intn(2) == 0
		if le {
			b.Write([]byte{0xFF, 0xFE})
		} else {
			b.Write([]byte{0xFE, 0xFF})
		}
		for _, c := range s {
			if c > 0xFFFF {
				c = '?'
			}
			if le {
				b.WriteByte(byte(c))
				b.WriteByte(byte(c >> 8))
			} else {
				b.WriteByte(byte(c >> 8))
				b.WriteByte(byte(c))
			}
		}
		return b.Bytes(), MutLexBOM + ":utf16"
	case 7: // tabs for indentation (all lines or one)
		lines := strings.Split(s, "\n")
		one := -1
		if r.Intn(2) == 0 && len(lines) > 0 {
			one = r.Intn(len(lines))
		}
		for i, l := range lines {
			if one >= 0 && i != one {
				continue
			}
			t := strings.TrimLeft(l, " ")
			if n := len(l) - len(t); n > 0 {
				lines[i] = strings.Repeat("\t", (n+1)/2) + t
			} else if one >= 0 {
				lines[i] = "\t" + l
			}
		}
		return []byte(strings.Join(lines, "\n")), MutLexTabs
	case 8:
		out := append([]byte{}, data...)
		for k := r.Intn(3) + 1; k > 0; k-- {
			i := r.Intn(len(out) + 1)
			out = append(out[:i:i], append([]byte{0}, out[i:]...)...)
		}
		return out, MutLexNUL
	case 9:
		bad := [][]byte{{0xff}, {0xc0, 0x80}, {0xe2, 0x82}, {0xed, 0xa0, 0x80}, {0xf4, 0x90, 0x80, 0x80}, {0x80}, {0xfe, 0xff}, {0x1b, '[', '3', '1', 'm'}, {0x7f}, {0x08}}[r.Intn(10)]
		out := append([]byte{}, data...)
		for k := r.Intn(3) + 1; k > 0; k-- {
			i := r.Intn(len(out) + 1)
			out = append(out[:i:i], append(append([]byte{}, bad...), out[i:]...)...)
		}
		return out, MutLexUTF8
	case 10:
		if len(data) == 0 {
			return data, ""
		}
		return append([]byte{}, data[:r.Intn(len(data))]...), MutLexTrunc
	case 11, 12: // splice a chunk of another file at a line boundary or anywhere
		if len(other) == 0 {
			return data, ""
		}
		a := r.Intn(len(other))
		b := a + r.Intn(len(other)-a) + 1
		chunk := other[a:b]
		i := r.Intn(len(data) + 1)
		if r.Intn(2) == 0 {
			if j := bytes.LastIndexByte(data[:i], '\n'); j >= 0 {
				i = j + 1
			}
		}
		return append(append(append([]byte{}, data[:i]...), chunk...), data[i:]...), MutLexSplice
	case 13: // duplicate or delete a line range
		lines := strings.SplitAfter(s, "\n")
		if len(lines) < 2 {
			return data, ""
		}
		a := r.Intn(len(lines))
		b := a + 1 + r.Intn(min(4, len(lines)-a))
		var out []string
		if r.Intn(2) == 0 {
			out = append(append(append(out, lines[:b]...), lines[a:b]...), lines[b:]...)
		} else {
			out = append(append(out, lines[:a]...), lines[b:]...)
		}
		return []byte(strings.Join(out, "")), MutLexBytes + ":lines"
	case 14: // change the indentation of one line
		lines := strings.Split(s, "\n")
		i := r.Intn(len(lines))
		if r.Intn(2) == 0 {
			lines[i] = strings.Repeat(" ", 1+r.Intn(3)) + lines[i]
		} else {
			lines[i] = strings.TrimPrefix(strings.TrimPrefix(lines[i], " "), " ")
		}
		return []byte(strings.Join(lines, "\n")), MutLexBytes + ":indent"
	case 15: // insert YAML punctuation
		p := []string{":", "- ", "? ", "{", "}", "[", "]", ",", "&a ", "*a", "!!", "|", ">", "'", "\"", "#", "%YAML 1.1\n", "---\n", "...\n", "<<: ", "{{", "}}", "\\", "@", "`"}[r.Intn(25)]
		i := r.Intn(len(data) + 1)
		return append(append(append([]byte{}, data[:i]...), p...), data[i:]...), MutLexBytes + ":punct"
	default: // flip / overwrite bytes
		if len(data) == 0 {
			return data, ""
		}
		out := append([]byte{}, data...)
		for k := r.Intn(4) + 1; k > 0; k-- {
			out[r.Intn(len(out))] = byte(r.Intn(256))
		}
		return out, MutLexBytes + ":flip"
	}
}

// depRing is a Taskfile whose n tasks depend on each other in a ring.
func depRing(n int) []byte {
	var b strings.Builder
	b.WriteString("version: '3'\ntasks:\n")
	for i := 0; i < n; i++ {
		fmt.Fprintf(&b, "  t%d:\n    deps: [t%d]\n    cmds: [echo]\n", i, (i+1)%n)
	}
	return []byte(b.String())
}

// hugeLexical builds pathological documents that no seed resembles.
func hugeLexical(r *rand.Rand, thorough bool) ([]byte, string) {
	k := r.Intn(7)
	if k == 6 && (!thorough || r.Intn(16) > 0) {
		// the dependency ring costs a full CPU limit each time it is run: it has one fixed
		// slot in the input list; in the thorough tier it also appears at random (about 1 input in 3000)
		k = r.Intn(6)
	}
	switch k {
	case 0:
		n := []int{50, 500, 5000, 20000}[r.Intn(4)]
		return []byte("version: '3'\ntasks:\n  a:\n    cmds: " + strings.Repeat("[", n) + strings.Repeat("]", n) + "\n"), MutStructNest + ":flow-seq"
	case 1:
		n := []int{50, 500, 5000, 20000}[r.Intn(4)]
		return []byte("version: '3'\nvars:\n  A: " + strings.Repeat("{a: ", n) + "1" + strings.Repeat("}", n) + "\n"), MutStructNest + ":flow-map"
	case 2:
		var b strings.Builder
		b.WriteString("version: '3'\ntasks:\n  a:\n    vars:\n      X:\n")
		n := []int{20, 200, 2000}[r.Intn(3)]
		for i := 0; i < n; i++ {
			b.WriteString(strings.Repeat(" ", 8+i) + "- \n")
		}
		return []byte(b.String()), MutStructNest + ":block-seq"
	case 3: // billion laughs
		var b strings.Builder
		b.WriteString("version: '3'\nvars:\n  A0: &a0 [x, x, x, x, x, x, x, x, x]\n")
		n := 4 + r.Intn(8)
		for i := 1; i <= n; i++ {
			fmt.Fprintf(&b, "  A%d: &a%d [*a%d, *a%d, *a%d, *a%d, *a%d, *a%d, *a%d, *a%d, *a%d]\n", i, i, i-1, i-1, i-1, i-1, i-1, i-1, i-1, i-1, i-1)
		}
		b.WriteString("tasks:\n  a:\n    cmds: [echo]\n")
		return []byte(b.String()), MutStructAlias + ":expansion"
	case 4: // anchor cycle
		return []byte("version: '3'\nvars: &v\n  A: *v\ntasks:\n  a: &t\n    deps: [*t]\n"), MutStructAlias + ":cycle"
	default: // very long scalar / key
		n := []int{1 << 10, 1 << 16, 1 << 20}[r.Intn(3)]
		if r.Intn(2) == 0 {
			return []byte("version: '3'\ntasks:\n  " + strings.Repeat("k", n) + ": echo\n"), MutLexBytes + ":long-key"
		}
		return []byte("version: '3'\ntasks:\n  a:\n    desc: " + strings.Repeat("d", n) + "\n    cmds: ['echo " + strings.Repeat("{{.A}}", n/8) + "']\n"), MutLexBytes + ":long-scalar"
	case 6: // a ring of dependencies
		return depRing([]int{30, 300}[r.Intn(2)]), MutStructNest + ":dep-ring"
	case 5: // merge keys
		return []byte("version: '3'\nx: &x {cmds: [echo], <<: {desc: d}}\ntasks:\n  a: {<<: *x, <<: [*x, *x]}\n  <<: *x\n<<: {tasks: {b: echo}}\n"), MutStructAlias + ":merge-keys"
	}
}

// MutShell puts a "shell-word hostile" string into a field that goes through
// shell-word expansion, globbing or the shell itself.
const MutShell = "shell:hostile-word"

// ShellHostile are strings that a shell-word parser / expander / globber reads
// as something other than one plain word: comments (zero words), unterminated
// quotes and substitutions, tilde forms, glob and brace fragments, operators,
// blanks, line continuations, invalid UTF-8 inside a bracket expression.
var ShellHostile = []string{
	"#x", " #x", "#", "#build", "\t#x", "\\\n", "\\\n#x", "\\", "a\\", "'", "\"", "a'b", "$(", "`", "${", "$((", "$((1/0))", "$(echo x", "${X:-", "${#", "$", "$'",
	"~", "~nosuchuser", "~+", "~/", "*[", "[", "[!", "[a-", "{a,", "{a,b}/*", "**", "*/**", "?", " ", "\t", "\n", "a\nb", ";", "&&", "|", ">", "<(", "&", "!", "x #y", "\\#x",
	"[\xaa]", "\xaa", "#\xff", "a b", "'a b'", "$HOME/#x", "$UNSET_FZ", "${UNSET_FZ}#x", "{{.FZH}}",
}

// hostileScalar renders s so that it survives the YAML round trip as a string
// (double quoted; invalid UTF-8 becomes !!binary, which decodes to the raw bytes).
func hostileScalar(s string) *yaml.Node {
	return &yaml.Node{Kind: yaml.ScalarNode, Value: s, Style: yaml.DoubleQuotedStyle}
}

func mapGet(m *yaml.Node, key string) *yaml.Node {
	if m == nil || m.Kind != yaml.MappingNode {
		return nil
	}
	for i := 0; i+1 < len(m.Content); i += 2 {
		if m.Content[i].Kind == yaml.ScalarNode && m.Content[i].Value == key {
			return m.Content[i+1]
		}
	}
	return nil
}

func mapSet(m *yaml.Node, key string, v *yaml.Node) {
	for i := 0; i+1 < len(m.Content); i += 2 {
		if m.Content[i].Kind == yaml.ScalarNode && m.Content[i].Value == key {
			m.Content[i+1] = v
			return
		}
	}
	m.Content = append(m.Content, scalar(key), v)
}

// seqAppend appends v to the sequence under key (a scalar there becomes the first item).
func seqAppend(m *yaml.Node, key string, v *yaml.Node) {
	cur := mapGet(m, key)
	switch {
	case cur == nil:
		mapSet(m, key, &yaml.Node{Kind: yaml.SequenceNode, Content: []*yaml.Node{v}})
	case cur.Kind == yaml.SequenceNode:
		cur.Content = append(cur.Content, v)
	default:
		mapSet(m, key, &yaml.Node{Kind: yaml.SequenceNode, Content: []*yaml.Node{cur, v}})
	}
}

// shellMutate places one hostile string (literally or through a template
// variable) in a shell-expanded field. It returns the task it touched, if any.
func shellMutate(r *rand.Rand, doc *yaml.Node) (focus string, ok bool) {
	root := doc.Content[0]
	if root.Kind != yaml.MappingNode {
		return "", false
	}
	h := ShellHostile[r.Intn(len(ShellHostile))]
	val := hostileScalar(h)
	if r.Intn(3) == 0 {
		// only after templating
		vars := mapGet(root, "vars")
		if vars == nil || vars.Kind != yaml.MappingNode {
			vars = &yaml.Node{Kind: yaml.MappingNode}
			mapSet(root, "vars", vars)
		}
		mapSet(vars, "FZH", hostileScalar(h))
		val = hostileScalar([]string{"{{.FZH}}", "{{.FZH}}", "x/{{.FZH}}", "{{.FZH}}/x", "{{.FZH}}{{.FZH}}"}[r.Intn(5)])
	}
	// a task with a mapping body to work on
	pickTask := func() (string, *yaml.Node) {
		tasks := mapGet(root, "tasks")
		if tasks == nil || tasks.Kind != yaml.MappingNode {
			tasks = &yaml.Node{Kind: yaml.MappingNode}
			mapSet(root, "tasks", tasks)
		}
		var idx []int
		for i := 0; i+1 < len(tasks.Content); i += 2 {
			if tasks.Content[i].Kind == yaml.ScalarNode && tasks.Content[i+1].Kind == yaml.MappingNode {
				idx = append(idx, i)
			}
		}
		if len(idx) == 0 || r.Intn(6) == 0 {
			body := &yaml.Node{Kind: yaml.MappingNode, Content: []*yaml.Node{scalar("desc"), strScalar("fz"), scalar("cmds"), {Kind: yaml.SequenceNode, Content: []*yaml.Node{strScalar("echo fz")}}}}
			tasks.Content = append(tasks.Content, strScalar("fzsh"), body)
			return "fzsh", body
		}
		i := idx[r.Intn(len(idx))]
		return tasks.Content[i].Value, tasks.Content[i+1]
	}
	switch op := r.Intn(16); {
	case op < 4: // task dir
		name, t := pickTask()
		mapSet(t, "dir", val)
		return name, true
	case op < 6: // include location
		incs := mapGet(root, "includes")
		if incs == nil || incs.Kind != yaml.MappingNode {
			incs = &yaml.Node{Kind: yaml.MappingNode}
			mapSet(root, "includes", incs)
		}
		if r.Intn(2) == 0 {
			incs.Content = append(incs.Content, strScalar("fzi"), val)
		} else {
			m := &yaml.Node{Kind: yaml.MappingNode, Content: []*yaml.Node{scalar("taskfile"), val}}
			if r.Intn(2) == 0 {
				m.Content = append(m.Content, scalar("optional"), scalar("true"))
			}
			incs.Content = append(incs.Content, strScalar("fzi"), m)
		}
		return "", true
	case op < 8: // include dir
		incs := mapGet(root, "includes")
		if incs == nil || incs.Kind != yaml.MappingNode {
			incs = &yaml.Node{Kind: yaml.MappingNode}
			mapSet(root, "includes", incs)
		}
		incs.Content = append(incs.Content, strScalar("fzi"), &yaml.Node{Kind: yaml.MappingNode, Content: []*yaml.Node{scalar("taskfile"), strScalar("./inc.yml"), scalar("dir"), val}})
		return "fzi:t", true
	case op < 10: // sources / generates globs
		name, t := pickTask()
		key := []string{"sources", "generates"}[r.Intn(2)]
		if r.Intn(4) == 0 {
			seqAppend(t, key, &yaml.Node{Kind: yaml.MappingNode, Content: []*yaml.Node{scalar("exclude"), val}})
		} else {
			seqAppend(t, key, val)
		}
		if r.Intn(2) == 0 {
			mapSet(t, "method", scalar([]string{"checksum", "timestamp"}[r.Intn(2)]))
		}
		return name, true
	case op < 11: // dotenv paths
		if r.Intn(2) == 0 {
			seqAppend(root, "dotenv", val)
			return "", true
		}
		name, t := pickTask()
		seqAppend(t, "dotenv", val)
		return name, true
	case op < 13: // text handed to the shell
		name, t := pickTask()
		switch r.Intn(5) {
		case 0:
			seqAppend(t, "status", val)
		case 1:
			seqAppend(t, "preconditions", val)
		case 2:
			seqAppend(t, "preconditions", &yaml.Node{Kind: yaml.MappingNode, Content: []*yaml.Node{scalar("sh"), val}})
		case 3:
			seqAppend(t, "cmds", val)
		default:
			seqAppend(t, "cmds", &yaml.Node{Kind: yaml.MappingNode, Content: []*yaml.Node{scalar("cmd"), val, scalar("ignore_error"), scalar("true")}})
		}
		return name, true
	case op < 15: // dynamic variables
		shv := &yaml.Node{Kind: yaml.MappingNode, Content: []*yaml.Node{scalar("sh"), val}}
		if r.Intn(2) == 0 {
			for _, k := range []string{"vars", "env"}[r.Intn(2):][:1] {
				m := mapGet(root, k)
				if m == nil || m.Kind != yaml.MappingNode {
					m = &yaml.Node{Kind: yaml.MappingNode}
					mapSet(root, k, m)
				}
				mapSet(m, "FZSH", shv)
			}
			return "", true
		}
		name, t := pickTask()
		k := []string{"vars", "env"}[r.Intn(2)]
		m := mapGet(t, k)
		if m == nil || m.Kind != yaml.MappingNode {
			m = &yaml.Node{Kind: yaml.MappingNode}
			mapSet(t, k, m)
		}
		mapSet(m, "FZSH", shv)
		if r.Intn(2) == 0 {
			mapSet(t, "dir", hostileScalar(ShellHostile[r.Intn(len(ShellHostile))])) // the sh: runs in the task's dir
		}
		return name, true
	default: // label / prefix / for-split: rendered text
		name, t := pickTask()
		mapSet(t, []string{"label", "prefix", "summary", "desc"}[r.Intn(4)], val)
		return name, true
	}
}
