// Package p16 checks property C16 (no input makes Task crash): seeded
// structure-aware and lexical mutation of Taskfiles, observed through the real
// CLI and through a journaled in-process batch child.
package p16

import (
	"encoding/base64"
	"encoding/json"
	"fmt"
	"os"
	"os/exec"
	"path/filepath"
	"sort"
	"strconv"
	"strings"
	"sync"
	"syscall"
	"time"

	"github.com/go-task/task/v3/verifh/h"
)

const rule = "corpus: every testdata/**/Taskfile*.y*ml of the repository (with the files around it), the yaml code blocks of website/docs, and generated Taskfiles that use every schema key. inputs (a function of VERIF_SEED and the index): the corpus unchanged, then mutants: 1-3 structure-aware mutations on the yaml.Node tree (replace any node by scalar/sequence/mapping/null/{}/[]/tagged scalar; rename/duplicate/drop/swap keys; insert a schema key with a value of random shape; numbers<->strings, huge ints; deep nesting; anchor+alias), task names over the C15 alphabet, shell-word hostile strings (comments = zero words, unterminated quotes/substitutions, tilde forms, glob and brace fragments, operators, blanks, line continuations, invalid UTF-8 in brackets; literally or through a template variable) in every field that is shell-expanded, globbed or run (task dir, include taskfile/dir, sources/generates, dotenv, status/preconditions/cmds, sh: variables), include-option combinations on multi-file inputs (excludes naming default / every task / a missing task, aliases clashing with task names, flatten, internal, a file with only a default task, a namespace equal to a task name), requests derived from every own name with '*' (stars removed, both sides overlapping, each side alone, the name itself, instantiated with '', 'x', ':'), include locations (.git URLs with/without //, http(s)://, empty, directories, self, ~, $VAR, templates), and/or 1-2 lexical mutations (CR, CRLF, NEL, LS/PS, mixed terminators, BOM, UTF-16, tabs, NUL, invalid UTF-8, truncation, splice of another corpus file, line duplication/deletion, indentation, punctuation, byte flips), synthetic pathological documents (20000-deep flow collections, alias expansion, anchor cycles, 1 MiB scalars, 2000-task dependency ring); 1 in 8 mutants is placed as the included file of a sane root. channel inproc: every input goes through a child process that links the repository (yaml.Unmarshal into ast.Taskfile, Executor.Setup, ListTasks plain+JSON, ListTaskNames, NAME=value assignments, GetTask/FastCompiledTask/CompiledTask for every task and generated request, Run with Dry) and journals '<input>:<stage>' before each call; a dead child is a violation attributed to the journal's last entry and the parent restarts after it. channel cli: the first inputs also go to the rebuilt CLI in 6+ invocations (--list-all, --list-all --json, <name>, --summary <name>, --dry <name>, one of the three with a generated request; NAME=value arguments added) under ulimit -v/-t with an empty PATH. violation: Go panic / fatal error / signal, exit status outside {0,1,50,100-110,200-207}, CPU limit (CPU time, not wall clock), memory limit, non-zero exit without any diagnostic. wall-clock watchdog = inconclusive. A case is one (input, invocation); non-trivial = the input is a mutant (differs from every corpus file) ; distinct by hash(project files, invocation)."

var documented = func() map[int]bool {
	m := map[int]bool{0: true, 1: true, 50: true}
	for c := 100; c <= 110; c++ {
		m[c] = true
	}
	for c := 200; c <= 207; c++ {
		m[c] = true
	}
	return m
}()

const (
	cpuLimitSec = 40
	memLimitKB  = 4 << 20 // ulimit -v, KiB
	maxSigs     = 60
)

type runner struct {
	part    *h.Partial
	scratch string
	bin     string
	child   string
	seeds   []Seed
	corpus  map[string]bool // content hashes of the corpus files
	mu      sync.Mutex
	sigs    map[string]bool
}

// violation records a violation, capping the number of distinct signatures.
func (rn *runner) violation(sig, what string, witness func() map[string]string) {
	// The statement demands termination of reading, merging, listing and compiling. Actually running (or
	// dry-running) a cyclic Taskfile does end with error 204, but only after each task of the ring has been
	// called 1000 times (about 5 ms of CPU per call, linear in the ring size), which exceeds this check's CPU
	// budget for large rings. That is slow, not a hang: such a case is inconclusive for C16 (the cycle clause
	// itself is C07's subject), not a violation.
	if strings.HasPrefix(sig, "C16 | cpu-limit | ") && (strings.HasSuffix(sig, ":dry-run") || strings.HasSuffix(sig, ":run") || strings.HasSuffix(sig, ":dry")) {
		rn.part.Count("cpu_budget_exceeded_while_running_tasks_(inconclusive)", 1)
		rn.part.Inconc(sig + ": " + what)
		return
	}
	rn.mu.Lock()
	if !rn.sigs[sig] && len(rn.sigs) >= maxSigs {
		rn.mu.Unlock()
		rn.part.Count("violations_beyond_signature_cap", 1)
		rn.part.Violation("C16 | overflow | more than "+strconv.Itoa(maxSigs)+" distinct crash signatures", what, witness())
		return
	}
	rn.sigs[sig] = true
	rn.mu.Unlock()
	rn.part.Violation(sig, what, witness())
}

func (rn *runner) witness(in *Input, extra map[string]any) map[string]string {
	w := map[string]string{}
	n := 0
	for k, v := range in.Files() {
		if k != "Taskfile.yml" && (n > 40 || len(v) > 32<<10) {
			continue
		}
		w["project/"+k] = v
		n++
	}
	c := map[string]any{
		"seed": h.Seed(), "tier": h.Tier(), "input_index": in.Index, "corpus_seed": in.SeedName, "mutators": in.Muts,
		"taskfile_base64": base64.StdEncoding.EncodeToString(in.Main), "assigns": in.Assigns, "remote_experiment": in.Remote, "insecure": in.Insecure,
	}
	for k, v := range extra {
		c[k] = v
	}
	b, _ := json.MarshalIndent(c, "", " ")
	w["case.json"] = string(b)
	return w
}

// classify turns a dead process into a signature ("" = not a crash).
func classify(stderr, signal string, exit int, timedOut bool, cpu time.Duration, mode string) (sig, what string) {
	if c, ok := ParseCrash(stderr); ok {
		if c.Kind == "fatal" && (strings.Contains(c.Msg, "out of memory") || strings.Contains(c.Msg, "cannot allocate memory") || strings.Contains(c.Msg, "failed to reserve")) {
			return "C16 | memory-limit | " + mode, "memory limit exceeded: " + c.Msg
		}
		return "C16 | " + c.Kind + " | " + c.Site(), c.Kind + ": " + c.Msg
	}
	if timedOut {
		return "", ""
	}
	if signal != "" {
		if strings.Contains(signal, "CPU time limit") || (signal == "killed" && cpu >= cpuLimitSec*time.Second*3/4) {
			return "C16 | cpu-limit | " + mode, fmt.Sprintf("CPU limit of %ds exceeded (used %v)", cpuLimitSec, cpu)
		}
		return "C16 | signal | " + signal + " | " + mode, "killed by signal " + signal
	}
	if !documented[exit] {
		return "C16 | exit-code | " + strconv.Itoa(exit) + " | " + mode, fmt.Sprintf("undocumented exit status %d", exit)
	}
	return "", ""
}

// Run is the check's entry point.
func Run(id string, start time.Time) int {
	scratch := h.Scratch(id)
	defer os.RemoveAll(scratch)
	bin, err := h.BuildCLI(scratch)
	if err != nil {
		fmt.Fprintln(os.Stderr, err)
		return 2
	}
	child, err := buildChild(scratch)
	if err != nil {
		fmt.Fprintln(os.Stderr, err)
		return 2
	}
	seeds, counts := LoadCorpus()
	if len(seeds) < 50 {
		fmt.Fprintf(os.Stderr, "corpus too small: %d seeds\n", len(seeds))
		return 2
	}
	rn := &runner{part: h.NewPartial(), scratch: scratch, bin: bin, child: child, seeds: seeds, corpus: map[string]bool{}, sigs: map[string]bool{}}
	for k, v := range counts {
		rn.part.Count(k, int64(v))
	}
	for _, s := range seeds {
		rn.corpus[h.Hash(string(s.Data))] = true
	}
	nIn := len(seeds) + h.Pick(6500, 80000)
	nCLI := NCLI(len(seeds))

	if d, err := strconv.Atoi(os.Getenv("P16_DEBUG_N")); err == nil { // debugging aid only
		nIn, nCLI = len(seeds)+d, len(seeds)+d/10
	}
	inputs := make([]Input, nIn)
	h.Parallel(nIn, 16, func(i int) { inputs[i] = GenInput(seeds, i) })
	for i := range inputs {
		for _, m := range inputs[i].Muts {
			rn.part.Count("mut "+mutClass(m), 1)
		}
	}

	var wg sync.WaitGroup
	wg.Add(2)
	t0 := time.Now()
	go func() {
		defer wg.Done()
		rn.inproc(inputs)
		rn.part.Max("wall_s_inproc_channel", int64(time.Since(t0).Seconds()))
	}()
	go func() {
		defer wg.Done()
		rn.cli(inputs[:nCLI])
		rn.part.Max("wall_s_cli_channel", int64(time.Since(t0).Seconds()))
	}()
	wg.Wait()

	f := false
	return h.Finish(h.Report{
		ID: id, Level: "exploration", Rule: rule, Exhaustive: &f, Start: start,
		Assumptions: []string{
			"commands of mutated Taskfiles run with an empty PATH (only shell builtins work), so a real run cannot do harm; external commands fail as diagnosed errors",
			"no network: remote includes end in a connection / resolution error, git nodes are exercised up to construction only",
			"tasks of inputs whose text contains 'watch' are not run by the CLI channel (a watched task never returns by design); the in-process channel skips Run for tasks with watch set",
			"the CPU limit (" + strconv.Itoa(cpuLimitSec) + " s CPU time per CLI invocation / per in-process input) is more than two orders of magnitude above the slowest benign case",
			"native go test -fuzz (coverage guided) is not part of this check",
		},
		MinEvents: int64(h.Pick(5000, 60000)), EventsKey: "inproc_inputs_started",
		Extra: map[string]any{"cpu_limit_s": cpuLimitSec, "memory_limit_kib": memLimitKB, "documented_exit_codes": "0,1,50,100-110,200-207"},
	}, rn.part)
}

func contains(l []string, s string) bool {
	for _, x := range l {
		if x == s {
			return true
		}
	}
	return false
}

// mutClass is the mutator name without its variant ("lex:bom:utf16" -> "lex:bom").
func mutClass(m string) string {
	p := strings.SplitN(m, ":", 3)
	if len(p) >= 2 {
		return p[0] + ":" + p[1]
	}
	return m
}

// buildChild compiles cmd/p16child against the repository under test.
func buildChild(scratch string) (string, error) {
	out := filepath.Join(scratch, "p16child")
	hdir := filepath.Join(h.VerifDir(), "harness")
	if _, err := os.Stat(filepath.Join(hdir, "go.mod")); err != nil {
		hdir = "/verif/harness"
	}
	args := []string{"build", "-tags", "verif"}
	if repo := h.RepoDir(); repo != "/repo" {
		// same harness, other tree: a scratch copy of go.mod with the replace redirected
		mod := h.ReadFile(filepath.Join(hdir, "go.mod"))
		mod = strings.Replace(mod, "=> /repo", "=> "+repo, 1)
		mf := filepath.Join(scratch, "child.mod")
		os.WriteFile(mf, []byte(mod), 0o644)
		os.WriteFile(filepath.Join(scratch, "child.sum"), []byte(h.ReadFile(filepath.Join(hdir, "go.sum"))), 0o644)
		args = append(args, "-modfile", mf)
	}
	args = append(args, "-o", out, "./cmd/p16child")
	cmd := exec.Command("go", args...)
	cmd.Dir = hdir
	cmd.Env = h.GoEnv()
	if b, err := cmd.CombinedOutput(); err != nil {
		return "", fmt.Errorf("go build cmd/p16child: %v\n%s", err, b)
	}
	return out, nil
}

func (rn *runner) mutated(in *Input) bool { return !rn.corpus[h.Hash(string(in.Main))] }

func filesHash(in *Input) string {
	f := in.Files()
	keys := make([]string, 0, len(f))
	for k := range f {
		keys = append(keys, k)
	}
	sort.Strings(keys)
	parts := make([]string, 0, 2*len(keys))
	for _, k := range keys {
		parts = append(parts, k, f[k])
	}
	return h.Hash(parts...)
}

// ---------------------------------------------------------------- CLI channel

type cliMode struct {
	name string
	args func(req string) []string
	run  bool // executes or compiles a task (skipped for 'watch' inputs)
}

var cliModes = []cliMode{
	{"list-all", func(string) []string { return []string{"--list-all"} }, false},
	{"list-all-json", func(string) []string { return []string{"--list-all", "--json"} }, false},
	{"run", func(r string) []string { return []string{r} }, true},
	{"summary", func(r string) []string { return []string{"--summary", r} }, false},
	{"dry", func(r string) []string { return []string{"--dry", r} }, true},
}

func (rn *runner) cli(inputs []Input) {
	h.Parallel(len(inputs), 12, func(i int) {
		in := &inputs[i]
		dir := filepath.Join(rn.scratch, "cli", strconv.Itoa(i))
		if err := h.WriteTree(dir, in.Files()); err != nil {
			rn.part.Inconc("cli write: " + err.Error())
			return
		}
		defer os.RemoveAll(dir)
		rn.part.Count("cli_inputs", 1)
		r := h.Rng(1600, int64(i))
		name1 := "default"
		var own []string
		for _, n := range in.Own {
			if cliOK(n) {
				own = append(own, n)
			}
		}
		if len(own) > 0 {
			name1 = own[r.Intn(len(own))]
		}
		for _, f := range in.Focus {
			// the task a field-aware mutation touched: summary, dry run and run compile it on the
			// main goroutine (a panic inside the listing goroutines can lose the race against exit)
			if cliOK(f) && (strings.Contains(f, ":") || contains(own, f)) {
				name1 = f
			}
		}
		name2 := "default"
		var reqs []string
		for _, n := range in.Requests {
			if cliOK(n) && len(n) <= 6000 {
				reqs = append(reqs, n)
			}
		}
		if len(reqs) > 0 {
			name2 = reqs[r.Intn(len(reqs))]
		}
		watch := strings.Contains(strings.ReplaceAll(string(in.Main), "\x00", ""), "watch") // NUL: UTF-16 re-encodings
		for _, v := range in.Aux {
			watch = watch || strings.Contains(v, "watch")
		}
		type inv struct {
			m   cliMode
			req string
		}
		invs := []inv{{cliModes[0], ""}, {cliModes[1], ""}, {cliModes[2], name1}, {cliModes[3], name1}, {cliModes[4], name1}, {cliModes[2+r.Intn(3)], name2}}
		// requests derived from the input's own names: a few of them, the modes rotating
		nd := 0
		for k, d := range in.Derived {
			if cliOK(d) && len(d) < 1000 && nd < 4 && (len(in.Derived) <= 4 || r.Intn(len(in.Derived)) < 5) {
				invs = append(invs, inv{cliModes[2+(k+nd)%3], d})
				nd++
			}
		}
		fh := filesHash(in)
		for _, iv := range invs {
			if iv.m.run && watch {
				rn.part.Count("cli_skipped_watch", 1)
				continue
			}
			args := iv.m.args(iv.req)
			if iv.m.run {
				for _, a := range in.Assigns {
					if !strings.Contains(a, "\x00") && len(a) < 100000 && !strings.HasPrefix(a, "-") {
						args = append(args, a)
					}
				}
			}
			env := []string{"PATH=/nonexistent-p16"}
			if in.Remote {
				env = append(env, "TASK_X_REMOTE_TASKFILES=1")
			}
			if contains(in.Muts, MutShell) && i%4 == 0 {
				// the directories taken from the environment go through the same expansion
				env = append(env, "TASK_TEMP_DIR="+ShellHostile[i%len(ShellHostile)])
			}
			script := fmt.Sprintf(`ulimit -v %d; ulimit -t %d; exec "$@"`, memLimitKB, cpuLimitSec)
			res := Proc{Bin: "/bin/sh", Dir: dir, Args: append([]string{"-c", script, "sh", rn.bin}, args...), Env: env, Timeout: 120 * time.Second, TmpDir: rn.scratch}.Run()
			rn.part.Count("cli_runs", 1)
			rn.part.Count("cli_mode_"+iv.m.name, 1)
			rn.part.Eval(h.Hash(fh, "cli", strings.Join(args, "\x00")), rn.mutated(in))
			rn.part.Max("cli_cpu_ms", res.CPU.Milliseconds())
			sig, what := classify(res.Stderr, res.Signal, res.Exit, res.TimedOut, res.CPU, "cli:"+iv.m.name)
			if sig == "" && res.TimedOut {
				rn.part.Inconc(fmt.Sprintf("cli input %d (%s, %v) argv %q: wall-clock watchdog", i, in.SeedName, in.Muts, args))
				continue
			}
			if sig == "" && res.Exit != 0 && strings.TrimSpace(res.Stdout) == "" && strings.TrimSpace(res.Stderr) == "" {
				sig, what = "C16 | undiagnosed | "+strconv.Itoa(res.Exit)+" | cli:"+iv.m.name, fmt.Sprintf("exit status %d without any diagnostic", res.Exit)
			}
			if sig == "" {
				rn.part.Count("cli_exit_"+strconv.Itoa(res.Exit), 1)
				if i%97 == 0 && iv.m.name == "run" {
					rn.part.Sample(map[string]any{"channel": "cli", "corpus_seed": in.SeedName, "mutators": in.Muts, "argv": args, "exit": res.Exit,
						"taskfile": h.Truncate(string(in.Main), 500), "stderr": h.Truncate(res.Stderr, 200)}, 4)
				}
				continue
			}
			rn.part.Count("cli_crashes", 1)
			if strings.HasPrefix(sig, "C16 | panic") || strings.HasPrefix(sig, "C16 | fatal") {
				// a panicking goroutine runs its deferred calls first (errgroup's Done), so other goroutines
				// race ahead and may crash on the half-built state before the runtime has finished dying:
				// the crash site printed can be a secondary one. One P makes the primary site win.
				res1 := Proc{Bin: "/bin/sh", Dir: dir, Args: append([]string{"-c", script, "sh", rn.bin}, args...), Env: append(env, "GOMAXPROCS=1"), Timeout: 120 * time.Second, TmpDir: rn.scratch}.Run()
				if sig1, what1 := classify(res1.Stderr, res1.Signal, res1.Exit, res1.TimedOut, res1.CPU, "cli:"+iv.m.name); strings.HasPrefix(sig1, "C16 | panic") || strings.HasPrefix(sig1, "C16 | fatal") {
					if sig1 != sig {
						rn.part.Count("crash_site_reattributed_with_one_P", 1)
						what1 += " [with GOMAXPROCS unset the dump showed: " + sig + "]"
					}
					sig, what, res = sig1, what1, res1
				}
			}
			rn.violation(sig, fmt.Sprintf("task %s on a mutant of %s (%v): %s", h.Truncate(fmt.Sprintf("%q", args), 200), in.SeedName, in.Muts, what), func() map[string]string {
				return rn.witness(in, map[string]any{"channel": "cli", "argv": append([]string{"task"}, args...), "env": env, "exit": res.Exit, "signal": res.Signal,
					"cpu_ms": res.CPU.Milliseconds(), "stdout": h.Truncate(res.Stdout, 2000), "stderr": h.Truncate(res.Stderr, 12000)})
			})
		}
	})
}

// ----------------------------------------------------------- in-process channel

type childInput struct {
	Dir      string   `json:"dir"`
	Requests []string `json:"requests"`
	Assigns  []string `json:"assigns"`
	Insecure bool     `json:"insecure"`
}

func (rn *runner) inproc(inputs []Input) {
	const shards = 12
	var wg sync.WaitGroup
	for s := 0; s < shards; s++ {
		wg.Add(1)
		go func(s int) {
			defer wg.Done()
			shardStart := time.Now()
			var mine []*Input
			for i := s; i < len(inputs); i += shards {
				mine = append(mine, &inputs[i])
			}
			base := filepath.Join(rn.scratch, "inproc", strconv.Itoa(s))
			os.MkdirAll(base, 0o755)
			var mf strings.Builder
			for k, in := range mine {
				dir := filepath.Join(base, strconv.Itoa(k))
				if err := h.WriteTree(dir, in.Files()); err != nil {
					rn.part.Inconc("inproc write: " + err.Error())
				}
				b, _ := json.Marshal(childInput{Dir: dir, Requests: in.Requests, Assigns: in.Assigns, Insecure: in.Insecure})
				mf.Write(b)
				mf.WriteByte('\n')
			}
			manifest := filepath.Join(base, "manifest.jsonl")
			os.WriteFile(manifest, []byte(mf.String()), 0o644)
			journal := filepath.Join(base, "journal")
			errf := filepath.Join(base, "stderr")
			from := 0
			for from < len(mine) {
				os.Remove(journal)
				last, stage, done, res := rn.runChild(manifest, journal, errf, from, -1, base)
				rn.tally(journal)
				if done && res.Exit == 0 && res.Signal == "" {
					break
				}
				if last < from {
					// died before journaling anything: not attributable
					rn.part.Inconc(fmt.Sprintf("inproc shard %d: child died before its first journal entry (exit %d %s): %s", s, res.Exit, res.Signal, h.Truncate(res.Stderr, 300)))
					rn.part.Count("inproc_child_unattributed_deaths", 1)
					from++
					continue
				}
				in := mine[last]
				mode := "inproc:" + strings.SplitN(stage, " ", 2)[0]
				var sig, what string
				switch {
				case res.TimedOut:
					rn.part.Inconc(fmt.Sprintf("inproc input %d (%s, %v) stage %s: no journal progress (wall-clock watchdog)", in.Index, in.SeedName, in.Muts, stage))
				case res.Exit == 96:
					sig, what = "C16 | cpu-limit | "+mode, fmt.Sprintf("more than %d s CPU time in one input", cpuLimitSec)
				default:
					sig, what = classify(res.Stderr, res.Signal, res.Exit, false, 0, mode)
					if sig == "" || strings.HasPrefix(sig, "C16 | exit-code") {
						sig, what = "C16 | child-died | exit="+strconv.Itoa(res.Exit)+" | "+mode, "the in-process child ended without finishing: "+h.Truncate(res.Stderr, 300)
					}
				}
				if sig != "" {
					rn.part.Count("inproc_crashes", 1)
					// replay the input alone in a fresh child: is the crash a function of the input?
					iso := map[string]any{}
					if !strings.HasPrefix(sig, "C16 | cpu-limit") {
						j2, e2 := journal+".iso", errf+".iso"
						os.Remove(j2)
						_, stage2, done2, res2 := rn.runChild(manifest, j2, e2, last, last+1, base, "GOMAXPROCS=1")
						for back := 1; back <= 3 && done2 && res2.Exit == 0 && last-back >= from; back++ {
							// the dying child's main goroutine may have raced ahead into the following inputs:
							// the inputs just before the journal's last one are the other candidates
							os.Remove(j2)
							if _, st, dn, rs := rn.runChild(manifest, j2, e2, last-back, last-back+1, base, "GOMAXPROCS=1"); !(dn && rs.Exit == 0) {
								rn.part.Count("crash_attributed_to_previous_input", 1)
								stage2, done2, res2 = st, dn, rs
								in = mine[last-back]
							}
						}
						sig2, what2 := classify(res2.Stderr, res2.Signal, res2.Exit, false, 0, "inproc:"+strings.SplitN(stage2, " ", 2)[0])
						if sig2 != sig && (strings.HasPrefix(sig2, "C16 | panic") || strings.HasPrefix(sig2, "C16 | fatal")) {
							// see the CLI channel: with one P the primary crash site wins the race to the dump
							rn.part.Count("crash_site_reattributed_with_one_P", 1)
							what = what2 + " [in the batch child the dump showed: " + sig + "]"
							sig, stage, res = sig2, stage2, res2
						}
						done2 = done2 && res2.Exit == 0 && res2.Signal == ""
						same := !done2 && sig2 == sig
						iso = map[string]any{"reproduced_alone": same, "alone_stage": stage2, "alone_signature": sig2, "alone_completed": done2}
						if same {
							rn.part.Count("inproc_crashes_reproduced_alone", 1)
						} else {
							rn.part.Count("inproc_crashes_not_reproduced_alone", 1)
							rn.part.SetAdd("not_reproduced_alone", sig)
							rn.part.Sample(map[string]any{"note": "crash in the batch child that the same input alone in a fresh child did not reproduce", "signature": sig, "stage": stage,
								"alone_signature": sig2, "alone_completed": done2, "input_index": in.Index, "mutators": in.Muts, "stderr_head": h.Truncate(res.Stderr, 600)}, 12)
							what += fmt.Sprintf(" [alone in a fresh child: completed=%v signature=%q]", done2, sig2)
						}
					}
					rn.violation(sig, fmt.Sprintf("in-process %s on a mutant of %s (%v): %s", h.Truncate(stage, 100), in.SeedName, in.Muts, what), func() map[string]string {
						return rn.witness(in, map[string]any{"channel": "inproc", "stage": stage, "requests": in.Requests, "exit": res.Exit, "signal": res.Signal, "stderr": h.Truncate(res.Stderr, 12000), "isolation_replay": iso})
					})
				}
				rn.part.Count("inproc_child_restarts", 1)
				from = last + 1
			}
			for _, in := range mine {
				rn.part.Eval(h.Hash(filesHash(in), "inproc"), rn.mutated(in))
			}
			if s == 0 {
				for k, in := range mine {
					if k%500 == 3 {
						rn.part.Sample(map[string]any{"channel": "inproc", "corpus_seed": in.SeedName, "mutators": in.Muts, "requests": in.Requests, "assigns": in.Assigns, "taskfile": h.Truncate(string(in.Main), 500)}, 8)
					}
				}
			}
			os.RemoveAll(base)
			rn.part.Max("wall_s_slowest_inproc_shard", int64(time.Since(shardStart).Seconds()))
		}(s)
	}
	wg.Wait()
}

type childResult struct {
	Exit     int
	Signal   string
	Stderr   string
	TimedOut bool
}

// lastEntry reads the journal: index and stage of the last call entry, and
// whether the child wrote "done". (A child can write "done" and still die: a
// panicking goroutine runs its deferred calls - errgroup's Done - before the
// runtime prints the dump, and the main goroutine races ahead meanwhile.)
func lastEntry(journal string) (idx int, stage string, done bool) {
	idx = -1
	data := h.ReadFile(journal)
	lines := strings.Split(strings.TrimRight(data, "\n"), "\n")
	for k := len(lines) - 1; k >= 0; k-- {
		l := lines[k]
		if l == "done" {
			done = true
			continue
		}
		if c := strings.Index(l, ":"); c > 0 {
			if strings.HasPrefix(l[c+1:], "CPULIMIT") || strings.HasPrefix(l[c+1:], "cpu-ms") || l[c+1:] == "ok" {
				continue // bookkeeping entries; the entry before them names the call
			}
			if n, err := strconv.Atoi(l[:c]); err == nil {
				return n, l[c+1:], done
			}
		}
	}
	return -1, "", done
}

func (rn *runner) runChild(manifest, journal, errf string, from, to int, base string, extraEnv ...string) (last int, stage string, done bool, res childResult) {
	ef, _ := os.Create(errf)
	script := fmt.Sprintf(`ulimit -v %d; exec "$@"`, memLimitKB)
	argv := []string{"-c", script, "sh", rn.child, manifest, journal, strconv.Itoa(from), strconv.Itoa(cpuLimitSec)}
	if to >= 0 {
		argv = append(argv, strconv.Itoa(to))
	}
	cmd := exec.Command("/bin/sh", argv...)
	cmd.Dir = base
	cmd.Env = append(append(h.BaseEnv(base), "PATH=/nonexistent-p16", "TASK_X_REMOTE_TASKFILES=1"), extraEnv...)
	cmd.Stdout, cmd.Stderr = ef, ef
	if err := cmd.Start(); err != nil {
		ef.Close()
		return -1, "", false, childResult{Exit: -2, Stderr: err.Error()}
	}
	doneCh := make(chan error, 1)
	go func() { doneCh <- cmd.Wait() }()
	lastSeen, lastChange := "", time.Now()
wait:
	for {
		select {
		case <-doneCh:
			break wait
		case <-time.After(time.Second):
			st, err := os.Stat(journal)
			cur := ""
			if err == nil {
				cur = strconv.FormatInt(st.Size(), 10)
			}
			if cur != lastSeen {
				lastSeen, lastChange = cur, time.Now()
			} else if time.Since(lastChange) > 180*time.Second {
				res.TimedOut = true
				cmd.Process.Kill()
				<-doneCh
				break wait
			}
		}
	}
	ef.Close()
	if cmd.ProcessState != nil {
		res.Exit = cmd.ProcessState.ExitCode()
		if ws, ok := cmd.ProcessState.Sys().(syscall.WaitStatus); ok && ws.Signaled() {
			res.Signal = ws.Signal().String()
		}
	}
	if b, err := os.ReadFile(errf); err == nil {
		if len(b) > 256<<10 {
			b = b[:256<<10]
		}
		res.Stderr = string(b)
	}
	last, stage, done = lastEntry(journal)
	return
}

// tally counts how far the inputs of one child life got.
func (rn *runner) tally(journal string) {
	counts := map[string]int64{}
	for _, l := range strings.Split(h.ReadFile(journal), "\n") {
		c := strings.Index(l, ":")
		if c <= 0 {
			continue
		}
		st := strings.SplitN(l[c+1:], " ", 2)[0]
		switch st {
		case "unmarshal":
			counts["inproc_inputs_started"]++
		case "setup-error":
			counts["inproc_setup_diagnosed_error"]++
		case "list":
			counts["inproc_setup_ok"]++
		case "get", "fast-compile", "compile", "dry-run":
			counts["inproc_calls_"+st]++
		case "dry-run-timeout":
			counts["inproc_dry_run_watchdog"]++
		case "ok":
			counts["inproc_inputs_completed"]++
		}
	}
	for k, v := range counts {
		rn.part.Count(k, v)
	}
}

// Dump writes inputs from, from+step, ... (< to) below dir together with a
// manifest for cmd/p16child; a replay / debugging aid.
func Dump(dir string, from, to, step int) error {
	seeds, _ := LoadCorpus()
	var mf strings.Builder
	for i, k := from, 0; i < to; i, k = i+step, k+1 {
		in := GenInput(seeds, i)
		d := filepath.Join(dir, strconv.Itoa(k))
		if err := h.WriteTree(d, in.Files()); err != nil {
			return err
		}
		b, _ := json.Marshal(childInput{Dir: d, Requests: in.Requests, Assigns: in.Assigns, Insecure: in.Insecure})
		mf.Write(b)
		mf.WriteByte('\n')
		fmt.Printf("%d -> %s  seed=%s muts=%v\n", i, d, in.SeedName, in.Muts)
	}
	return os.WriteFile(filepath.Join(dir, "manifest.jsonl"), []byte(mf.String()), 0o644)
}
