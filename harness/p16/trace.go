package p16

import (
	"regexp"
	"strings"
)

const modRoot = "github.com/go-task/task/v3"

// Crash is what a dead Go process left on its stderr.
type Crash struct {
	Kind  string // "panic" | "fatal"
	Msg   string // first line of the panic / fatal error message
	Frame string // top go-task frame (function, no arguments, no line numbers), "" if none
	Via   string // the non-runtime frame directly above Frame, if it is not a go-task frame (e.g. regexp.MustCompile)
	// Origin is the function in which the (innermost, original) panic was raised:
	// the first non-runtime frame below the last "panic(" frame. For a panic that
	// passed through recover-and-repanic plumbing (yaml's handleErr) this is the
	// real site, not the plumbing.
	Origin string
}

// thirdParty reports whether fn belongs to a module other than the standard
// library and go-task (first path element contains a dot).
func thirdParty(fn string) bool {
	i := strings.Index(fn, "/")
	if i < 0 {
		return false // "regexp.MustCompile": a top-level standard library package
	}
	first := fn[:i]
	return strings.Contains(first, ".") && !strings.HasPrefix(fn, modRoot+"/") && !strings.HasPrefix(fn, modRoot+".")
}

var hexRe = regexp.MustCompile(`0x[0-9a-fA-F]+`)

// stripArgs removes the trailing "(...)" argument list of a traceback
// function line.
func stripArgs(line string) string {
	line = strings.TrimSpace(line)
	line = strings.TrimPrefix(line, "created by ")
	if i := strings.Index(line, " in goroutine "); i >= 0 {
		line = line[:i]
	}
	if !strings.HasSuffix(line, ")") {
		return line
	}
	depth := 0
	for i := len(line) - 1; i >= 0; i-- {
		switch line[i] {
		case ')':
			depth++
		case '(':
			depth--
			if depth == 0 {
				return line[:i]
			}
		}
	}
	return line
}

func isFuncLine(l string) bool {
	if l == "" || strings.HasPrefix(l, "\t") || strings.HasPrefix(l, " ") {
		return false
	}
	if strings.HasPrefix(l, "goroutine ") || strings.HasPrefix(l, "panic:") || strings.HasPrefix(l, "fatal error:") ||
		strings.HasPrefix(l, "[signal ") || strings.HasPrefix(l, "exit status") || strings.HasPrefix(l, "...") {
		return false
	}
	return strings.Contains(l, "(") || strings.HasPrefix(l, "created by ")
}

// ParseCrash extracts the crash site from a Go runtime crash dump. ok is false
// if the text holds no panic / fatal error.
func ParseCrash(stderr string) (c Crash, ok bool) {
	lines := strings.Split(stderr, "\n")
	start := -1
	for i, l := range lines {
		if strings.HasPrefix(l, "panic: ") {
			c.Kind, c.Msg, start = "panic", strings.TrimPrefix(l, "panic: "), i
			break
		}
		if strings.HasPrefix(l, "fatal error: ") {
			c.Kind, c.Msg, start = "fatal", strings.TrimPrefix(l, "fatal error: "), i
			break
		}
	}
	if start < 0 {
		// a bare goroutine dump (SIGQUIT) is not a crash of its own
		return c, false
	}
	c.Msg = hexRe.ReplaceAllString(c.Msg, "0x?")
	// first goroutine block after the message
	g := -1
	for i := start; i < len(lines); i++ {
		if strings.HasPrefix(lines[i], "goroutine ") && strings.HasSuffix(strings.TrimSpace(lines[i]), ":") {
			g = i
			break
		}
	}
	if g < 0 {
		return c, true
	}
	// origin of the innermost panic
	lastPanic := g
	end := len(lines)
	for i := g + 1; i < len(lines); i++ {
		if strings.TrimSpace(lines[i]) == "" {
			end = i
			break
		}
		if strings.HasPrefix(lines[i], "panic(") {
			lastPanic = i
		}
	}
	for i := lastPanic + 1; i < end; i++ {
		if !isFuncLine(lines[i]) {
			continue
		}
		fn := stripArgs(lines[i])
		if fn == "panic" || strings.HasPrefix(fn, "runtime.") || strings.HasPrefix(fn, "runtime/") || strings.HasPrefix(fn, "internal/") {
			continue
		}
		c.Origin = strings.ReplaceAll(fn, "%2e", ".")
		break
	}
	prev := ""
	for i := g + 1; i < len(lines); i++ {
		l := lines[i]
		if strings.TrimSpace(l) == "" {
			break // end of the first goroutine
		}
		if !isFuncLine(l) {
			continue
		}
		fn := stripArgs(l)
		if (strings.HasPrefix(fn, modRoot+"/") || strings.HasPrefix(fn, modRoot+".")) && !strings.HasPrefix(fn, modRoot+"/verifh") {
			c.Frame = strings.TrimPrefix(strings.TrimPrefix(fn, modRoot+"/"), modRoot+".")
			if strings.HasPrefix(fn, modRoot+".") {
				c.Frame = "task." + c.Frame
			}
			if prev != "" {
				c.Via = prev
			}
			return c, true
		}
		if fn == "panic" || strings.HasPrefix(fn, "runtime.") || strings.HasPrefix(fn, "runtime/") || strings.HasPrefix(fn, "internal/") {
			continue
		}
		if prev == "" {
			prev = fn
		}
	}
	if c.Frame == "" && prev != "" {
		c.Frame = "(no go-task frame) " + prev
		c.Via = ""
	}
	return c, true
}

// Site renders the crash as the role tags of a signature.
func (c Crash) Site() string {
	if c.Kind == "panic" && c.Origin != "" && thirdParty(c.Origin) {
		// raised inside a dependency: one defect there has many go-task callers
		return c.Origin + " (dependency)"
	}
	s := c.Frame
	if s == "" {
		s = "(no frame) " + c.Msg
	}
	if c.Kind == "fatal" {
		// the kind of fatal error matters (stack overflow vs concurrent map write)
		m := c.Msg
		if i := strings.IndexAny(m, ":("); i > 0 {
			m = m[:i]
		}
		s = strings.TrimSpace(m) + " | " + s
	}
	return s
}
