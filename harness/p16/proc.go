package p16

import (
	"context"
	"io"
	"os"
	"os/exec"
	"syscall"
	"time"

	"github.com/go-task/task/v3/verifh/h"
)

// Proc runs one child with stdout and stderr going straight to files (no pipes,
// no copier goroutines: on a starved machine a pipe reader can lose the tail of
// a goroutine dump or of the probe output after the child has exited).
type Proc struct {
	Bin     string
	Args    []string
	Dir     string
	Env     []string // appended to h.BaseEnv(Dir)
	Timeout time.Duration
	TmpDir  string // where the two output files live for the duration of the run
}

func readCapped(f *os.File, max int64) string {
	f.Seek(0, io.SeekStart)
	b, _ := io.ReadAll(io.LimitReader(f, max))
	return string(b)
}

// Run executes the child; a fired watchdog sets TimedOut (inconclusive).
func (p Proc) Run() h.Result {
	to := p.Timeout
	if to == 0 {
		to = 120 * time.Second
	}
	tmp := p.TmpDir
	if tmp == "" {
		tmp = os.TempDir()
	}
	so, err1 := os.CreateTemp(tmp, "out-")
	se, err2 := os.CreateTemp(tmp, "err-")
	if err1 != nil || err2 != nil {
		return h.Result{Exit: -2, Stderr: "[harness] cannot create output files", TimedOut: true}
	}
	defer func() {
		so.Close()
		se.Close()
		os.Remove(so.Name())
		os.Remove(se.Name())
	}()
	ctx, cancel := context.WithTimeout(context.Background(), to)
	defer cancel()
	cmd := exec.CommandContext(ctx, p.Bin, p.Args...)
	cmd.Dir = p.Dir
	cmd.Env = append(h.BaseEnv(p.Dir), p.Env...)
	cmd.Stdout, cmd.Stderr = so, se
	cmd.SysProcAttr = &syscall.SysProcAttr{Setpgid: true}
	cmd.Cancel = func() error { return syscall.Kill(-cmd.Process.Pid, syscall.SIGKILL) }
	err := cmd.Run()
	r := h.Result{}
	if cmd.ProcessState != nil {
		r.CPU = cmd.ProcessState.UserTime() + cmd.ProcessState.SystemTime()
		r.Exit = cmd.ProcessState.ExitCode()
		if ws, ok := cmd.ProcessState.Sys().(syscall.WaitStatus); ok && ws.Signaled() {
			r.Signal = ws.Signal().String()
		}
	} else if err != nil {
		r.Exit = -2
		r.TimedOut = true // could not even start: not a verdict
	}
	r.Stdout = readCapped(so, 1<<20)
	r.Stderr = readCapped(se, 1<<20)
	if cmd.ProcessState == nil && err != nil {
		r.Stderr += "\n[harness] " + err.Error()
	}
	if ctx.Err() != nil {
		r.TimedOut = true
	}
	return r
}
