package p16

import (
	"io/fs"
	"os"
	"path/filepath"
	"regexp"
	"sort"
	"strings"

	"github.com/go-task/task/v3/verifh/h"
)

// Seed is one well-formed (or deliberately odd) starting point for mutation.
type Seed struct {
	Name string // where it came from
	Data []byte
	Aux  map[string]string // the other files of the seed's directory (testdata seeds), so that its includes resolve
}

// siblings reads the directory tree around a testdata Taskfile (bounded).
func siblings(dir string) map[string]string {
	out := map[string]string{}
	total := 0
	filepath.WalkDir(dir, func(p string, d fs.DirEntry, err error) error {
		if err != nil || d.IsDir() || len(out) >= 60 || total > 256<<10 {
			return nil
		}
		info, err := d.Info()
		if err != nil || !info.Mode().IsRegular() || info.Size() > 32<<10 {
			return nil
		}
		b, err := os.ReadFile(p)
		if err != nil {
			return nil
		}
		rel, _ := filepath.Rel(dir, p)
		out[filepath.ToSlash(rel)] = string(b)
		total += len(b)
		return nil
	})
	return out
}

var taskfileName = regexp.MustCompile(`^Taskfile.*\.ya?ml$`)

// LoadCorpus collects every testdata/**/Taskfile*.y*ml, the YAML code blocks of
// website/docs and the built-in generated seeds. The order is deterministic.
func LoadCorpus() (seeds []Seed, counts map[string]int) {
	counts = map[string]int{}
	repo := h.RepoDir()
	var files []string
	filepath.WalkDir(filepath.Join(repo, "testdata"), func(p string, d fs.DirEntry, err error) error {
		if err == nil && !d.IsDir() && taskfileName.MatchString(d.Name()) {
			files = append(files, p)
		}
		return nil
	})
	sort.Strings(files)
	for _, f := range files {
		b, err := os.ReadFile(f)
		if err != nil || len(b) > 64<<10 {
			continue
		}
		rel, _ := filepath.Rel(repo, f)
		seeds = append(seeds, Seed{Name: rel, Data: b, Aux: siblings(filepath.Dir(f))})
		counts["corpus_testdata_files"]++
	}
	var docs []string
	filepath.WalkDir(filepath.Join(repo, "website", "docs"), func(p string, d fs.DirEntry, err error) error {
		if err == nil && !d.IsDir() && (strings.HasSuffix(p, ".mdx") || strings.HasSuffix(p, ".md")) {
			docs = append(docs, p)
		}
		return nil
	})
	sort.Strings(docs)
	for _, f := range docs {
		b, err := os.ReadFile(f)
		if err != nil {
			continue
		}
		rel, _ := filepath.Rel(repo, f)
		for i, blk := range yamlBlocks(string(b)) {
			if len(blk) > 64<<10 {
				continue
			}
			seeds = append(seeds, Seed{Name: rel + "#" + itoa(i), Data: []byte(blk)})
			counts["corpus_doc_blocks"]++
		}
	}
	for i, g := range generatedSeeds() {
		seeds = append(seeds, Seed{Name: "generated#" + itoa(i), Data: []byte(g)})
		counts["corpus_generated"]++
	}
	return
}

func itoa(i int) string {
	if i == 0 {
		return "0"
	}
	s := ""
	for i > 0 {
		s = string(rune('0'+i%10)) + s
		i /= 10
	}
	return s
}

// yamlBlocks returns the bodies of ```yaml / ```yml fenced blocks.
func yamlBlocks(md string) []string {
	var out []string
	lines := strings.Split(md, "\n")
	for i := 0; i < len(lines); i++ {
		t := strings.TrimSpace(lines[i])
		if !strings.HasPrefix(t, "```yaml") && !strings.HasPrefix(t, "```yml") {
			continue
		}
		indent := len(lines[i]) - len(strings.TrimLeft(lines[i], " \t"))
		var body []string
		j := i + 1
		for ; j < len(lines); j++ {
			if strings.HasPrefix(strings.TrimSpace(lines[j]), "```") {
				break
			}
			l := lines[j]
			if len(l) >= indent {
				l = l[indent:]
			} else {
				l = strings.TrimLeft(l, " \t")
			}
			body = append(body, l)
		}
		i = j
		if len(body) > 0 {
			out = append(out, strings.Join(body, "\n")+"\n")
		}
	}
	return out
}

// generatedSeeds are Taskfiles written for this check: together they use every
// key of the schema at least once, in every spelling the loader accepts.
func generatedSeeds() []string {
	return []string{
		`version: '3'
output: prefixed
method: checksum
run: when_changed
interval: 1s
silent: false
set: [errexit]
shopt: [globstar]
dotenv: ['.env', '{{.HOME}}/.env']
env:
  E1: v1
  E2: {sh: "echo e2"}
vars:
  S: text
  N: 42
  B: true
  L: [a, b, c]
  M: {map: {k1: v1, k2: [1, 2]}}
  D: {sh: "echo dyn"}
  R: {ref: .L}
includes:
  inc: ./inc.yml
  adv:
    taskfile: ./dir
    dir: ./dir
    optional: true
    internal: false
    flatten: false
    aliases: [ad]
    excludes: [skipme]
    vars: {IV: 1}
tasks:
  default:
    desc: the default
    summary: |
      long text
    aliases: [d, dflt]
    deps: [dep1, {task: dep2, vars: {X: 1}, silent: true}]
    cmds:
      - echo {{.S}} {{.N}}
      - cmd: echo quiet
        silent: true
        ignore_error: true
        platforms: [linux]
        set: [pipefail]
        shopt: [nullglob]
      - task: dep1
        vars: {A: b}
      - defer: echo cleanup
      - defer: {task: dep1}
      - for: [x, y]
        cmd: echo {{.ITEM}}
      - for: {var: L, as: EL}
        task: dep2
        vars: {X: '{{.EL}}'}
      - for: {matrix: {OS: [linux, darwin], ARCH: {ref: .L}}}
        cmd: echo {{.ITEM.OS}}/{{.ITEM.ARCH}}
      - for: sources
        cmd: cat {{.ITEM}}
      - for: {var: S, split: ','}
        cmd: echo {{.ITEM}}
    sources: ['*.go', {exclude: 'x.go'}]
    generates: [out.bin]
    status: [test -f out.bin]
    preconditions:
      - test -f Taskfile.yml
      - sh: 'true'
        msg: must be true
    requires:
      vars: [S, {name: N, enum: ['42', '43']}]
    dir: '{{.USER_WORKING_DIR}}'
    env: {TE: 1}
    vars: {TV: '{{.S}}'}
    dotenv: [.env]
    label: 'lbl-{{.TASK}}'
    prompt: [Sure?, Really?]
    platforms: [linux/amd64, darwin]
    method: timestamp
    run: once
    prefix: pre
    interactive: false
    internal: false
    silent: false
    ignore_error: false
    watch: false
    set: [nounset]
    shopt: [expand_aliases]
  dep1: echo dep1
  dep2:
    - echo {{.X}}
    - echo second
  'wild:*:*':
    cmds: ['echo {{index .MATCH 0}} {{index .MATCH 1}}']
`,
		`version: 3
tasks:
  a: {cmd: echo a, deps: [b]}
  b: {cmds: [{task: c}], requires: {vars: [Q]}}
  c: {cmds: [echo c], prompt: go on?}
  d: {deps: [a, a, c]}
`,
		`version: '3.42'
vars:
  ANCHOR: &anc {sh: echo anchored}
  USE: *anc
x-ext: &ext
  cmds: [echo ext]
tasks:
  m1:
    <<: *ext
    desc: merged
  m2: *ext
`,
		`version: '3'
output:
  group:
    begin: '::group::{{.TASK}}'
    end: '::endgroup::'
    error_only: true
tasks:
  t:
    cmds:
      - echo "{{.CLI_ARGS}} {{.TASK}} {{.ROOT_DIR}} {{.TASKFILE}} {{.TASK_VERSION}} {{.ITEM}} {{.EXIT_CODE}} {{.CHECKSUM}} {{.TIMESTAMP}}"
      - echo '{{OS}} {{ARCH}} {{numCPU}} {{splitLines "a\nb"}} {{catLines "x"}} {{toSlash "a"}} {{fromSlash "a"}} {{exeExt}} {{shellQuote "a b"}} {{splitArgs "a b"}} {{joinPath "a" "b"}} {{relPath "/a" "/a/b"}} {{merge (dict "a" 1) (dict "b" 2)}} {{spew .}} {{uuid}} {{randIntN 10}}'
`,
		`version: '3'
includes:
  self: ./Taskfile.yml
  dir: ./dir
  home: ~/x.yml
  envv: $HOME/x.yml
  tpl: '{{.HOME}}/x.yml'
  remote: https://127.0.0.1:1/Taskfile.yml
  git: https://example.com/foo/bar.git//Taskfile.yml?ref=main
tasks:
  default: echo hi
`,
		"version: '3'\ntasks:\n  \"a b\":\n    cmds: [echo 1]\n  \"a.b\":\n    cmds: [echo 2]\n  \"*.x\":\n    cmds: ['echo {{.MATCH}}']\n  \":\":\n    cmds: [echo 3]\n  \"\":\n    cmds: [echo 4]\n",
		``,
		`# only a comment
`,
		`---
...
`,
		`version: '3'
`,
		`tasks: {}
`,
		`version: '2'
tasks:
  a: echo
`,
		`version: '99'
tasks:
  a: echo
`,
		`version: '3'
tasks:
  a:
`,
		`[1, 2, 3]
`,
		`just a string
`,
		// loop sources that are empty in every accepted spelling, in an included file
		"version: '3'\nincludes: {lp: ./loops.yml}\ntasks:\n  default:\n    cmds:\n      - task: lp:default\n",
		// run-time paths (only shell builtins, the CLI channel runs with an empty PATH): a dynamic variable that can be
		// evaluated when the task starts and no longer when its deferred commands are templated
		"version: '3'\ntasks:\n  default:\n    vars:\n      R: '{{randInt 0 1000000000}}'\n      X: {sh: 'test ! -e marker.tmp && echo fresh'}\n    cmds:\n      - defer: echo bye {{.X}}\n      - defer: 'echo {{.EXIT_CODE}} {{.X}}'\n      - ': > marker.tmp'\n",
	}
}
