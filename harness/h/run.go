// Package h is the shared plumbing of the verification harness: seeds, tiers,
// evidence files, known findings, violation reporting and partial-result
// merging for sharded runs.
package h

import (
	"crypto/sha256"
	"encoding/hex"
	"encoding/json"
	"fmt"
	"os"
	"path/filepath"
	"sort"
	"strconv"
	"strings"
	"sync"
	"time"
)

// VerifDir is the root of the verification tree.
func VerifDir() string {
	if d := os.Getenv("VERIF_DIR"); d != "" {
		return d
	}
	return "/verif"
}

// RepoDir is the repository under verification.
func RepoDir() string {
	if d := os.Getenv("VERIF_REPO"); d != "" {
		return d
	}
	return "/repo"
}

// Seed returns VERIF_SEED (default 1).
func Seed() int64 {
	if s := os.Getenv("VERIF_SEED"); s != "" {
		if n, err := strconv.ParseInt(s, 10, 64); err == nil {
			return n
		}
	}
	return 1
}

// Tier returns "quick" or "thorough".
func Tier() string {
	if os.Getenv("VERIF_TIER") == "thorough" {
		return "thorough"
	}
	return "quick"
}

// Thorough reports whether the thorough tier was requested.
func Thorough() bool { return Tier() == "thorough" }

// Pick returns q in the quick tier and t in the thorough tier.
func Pick(q, t int) int {
	if Thorough() {
		return t
	}
	return q
}

// Hash is a short stable hash of its arguments.
func Hash(parts ...string) string {
	s := sha256.New()
	for _, p := range parts {
		s.Write([]byte(p))
		s.Write([]byte{0})
	}
	return hex.EncodeToString(s.Sum(nil))[:16]
}

// Viol is one observed violation of a property.
type Viol struct {
	Sig     string            `json:"sig"`     // known-findings key: property | rule | role tags
	What    string            `json:"what"`    // human readable one-liner
	Witness map[string]string `json:"witness"` // file name -> content, written to the replay dir
	Replay  string            `json:"replay,omitempty"`
}

// Partial is the mergeable result of (a shard of) a check run.
type Partial struct {
	Evals        int64               `json:"evals"`
	Keys         map[string]struct{} `json:"-"`
	KeyList      []string            `json:"keys"`
	Samples      []any               `json:"samples"`
	Viols        []Viol              `json:"viols"`
	Inconclusive []string            `json:"inconclusive"`
	Counters     map[string]int64    `json:"counters"`
	Maxes        map[string]int64    `json:"maxes"`
	Sets         map[string][]string `json:"sets"`
	sets         map[string]map[string]struct{}
	mu           sync.Mutex
}

// NewPartial returns an empty Partial.
func NewPartial() *Partial {
	return &Partial{Keys: map[string]struct{}{}, Counters: map[string]int64{}, Maxes: map[string]int64{}, sets: map[string]map[string]struct{}{}}
}

// Eval counts one evaluation; if nontrivial, key is added to the distinct set.
func (p *Partial) Eval(key string, nontrivial bool) {
	p.mu.Lock()
	defer p.mu.Unlock()
	p.Evals++
	if nontrivial {
		p.Keys[key] = struct{}{}
	}
}

// Count adds n to a named counter.
func (p *Partial) Count(name string, n int64) {
	p.mu.Lock()
	defer p.mu.Unlock()
	p.Counters[name] += n
}

// Max keeps the maximum of a named gauge.
func (p *Partial) Max(name string, v int64) {
	p.mu.Lock()
	defer p.mu.Unlock()
	if v > p.Maxes[name] {
		p.Maxes[name] = v
	}
}

// SetAdd adds an element to a named distinct-set counter.
func (p *Partial) SetAdd(name, elem string) {
	p.mu.Lock()
	defer p.mu.Unlock()
	m := p.sets[name]
	if m == nil {
		m = map[string]struct{}{}
		p.sets[name] = m
	}
	m[elem] = struct{}{}
}

// Sample keeps up to max samples.
func (p *Partial) Sample(v any, max int) {
	p.mu.Lock()
	defer p.mu.Unlock()
	if len(p.Samples) < max {
		p.Samples = append(p.Samples, v)
	}
}

// Violation records a violation.
func (p *Partial) Violation(sig, what string, witness map[string]string) {
	p.mu.Lock()
	defer p.mu.Unlock()
	// keep at most 3 witnesses per signature, but count all
	n := 0
	for _, v := range p.Viols {
		if v.Sig == sig {
			n++
		}
	}
	p.Counters["viol:"+sig]++
	if n < 3 {
		p.Viols = append(p.Viols, Viol{Sig: sig, What: what, Witness: witness})
	}
}

// Inconc records an inconclusive case.
func (p *Partial) Inconc(what string) {
	p.mu.Lock()
	defer p.mu.Unlock()
	p.Counters["inconclusive"]++
	if len(p.Inconclusive) < 20 {
		p.Inconclusive = append(p.Inconclusive, what)
	}
}

// Save writes the partial to a file.
func (p *Partial) Save(path string) error {
	p.mu.Lock()
	defer p.mu.Unlock()
	p.KeyList = p.KeyList[:0]
	for k := range p.Keys {
		p.KeyList = append(p.KeyList, k)
	}
	p.Sets = map[string][]string{}
	for n, m := range p.sets {
		for e := range m {
			p.Sets[n] = append(p.Sets[n], e)
		}
	}
	b, err := json.Marshal(p)
	if err != nil {
		return err
	}
	return os.WriteFile(path, b, 0o644)
}

// LoadPartial reads a partial written by Save.
func LoadPartial(path string) (*Partial, error) {
	b, err := os.ReadFile(path)
	if err != nil {
		return nil, err
	}
	p := NewPartial()
	if err := json.Unmarshal(b, p); err != nil {
		return nil, err
	}
	if p.Counters == nil {
		p.Counters = map[string]int64{}
	}
	if p.Maxes == nil {
		p.Maxes = map[string]int64{}
	}
	for _, k := range p.KeyList {
		p.Keys[k] = struct{}{}
	}
	for n, l := range p.Sets {
		m := map[string]struct{}{}
		for _, e := range l {
			m[e] = struct{}{}
		}
		p.sets[n] = m
	}
	return p, nil
}

// Merge adds q into p.
func (p *Partial) Merge(q *Partial, maxSamples int) {
	p.Evals += q.Evals
	for k := range q.Keys {
		p.Keys[k] = struct{}{}
	}
	for _, s := range q.Samples {
		if len(p.Samples) < maxSamples {
			p.Samples = append(p.Samples, s)
		}
	}
	p.Viols = append(p.Viols, q.Viols...)
	p.Inconclusive = append(p.Inconclusive, q.Inconclusive...)
	for k, v := range q.Counters {
		p.Counters[k] += v
	}
	for k, v := range q.Maxes {
		if v > p.Maxes[k] {
			p.Maxes[k] = v
		}
	}
	for n, m := range q.sets {
		for e := range m {
			if p.sets[n] == nil {
				p.sets[n] = map[string]struct{}{}
			}
			p.sets[n][e] = struct{}{}
		}
	}
}

// Known is one entry of known_findings.json.
type Known struct {
	Status    string `json:"status"` // "known" or "fixed"
	Property  string `json:"property"`
	Signature string `json:"signature"`
	What      string `json:"what"`
	Witness   string `json:"witness,omitempty"`
	Commit    string `json:"commit,omitempty"`
}

// LoadKnown reads /verif/known_findings.json.
func LoadKnown() []Known {
	b, err := os.ReadFile(filepath.Join(VerifDir(), "known_findings.json"))
	if err != nil {
		return nil
	}
	var f struct {
		Findings []Known `json:"findings"`
	}
	if err := json.Unmarshal(b, &f); err != nil {
		fmt.Fprintf(os.Stderr, "known_findings.json: %v\n", err)
		os.Exit(2)
	}
	return f.Findings
}

func sigMatch(pattern, sig string) bool {
	if strings.HasSuffix(pattern, "*") {
		return strings.HasPrefix(sig, strings.TrimSuffix(pattern, "*"))
	}
	return pattern == sig
}

// Report describes the check for the evidence file.
type Report struct {
	ID          string
	Level       string // exploration | fault_enumeration
	Rule        string
	Assumptions []string
	Exhaustive  *bool
	Extra       map[string]any
	MinEvents   int64  // if >0: counter EventsKey must reach it, else the run is broken (observed nothing)
	EventsKey   string // counter holding the number of observed events
	Start       time.Time
}

// Finish applies known findings, writes witnesses and the evidence file, prints
// the verdict lines and returns the process exit code.
func Finish(r Report, p *Partial) int {
	known := LoadKnown()
	type agg struct {
		v     Viol
		count int64
	}
	bySig := map[string]*agg{}
	var order []string
	for _, v := range p.Viols {
		if a, ok := bySig[v.Sig]; ok {
			_ = a
			continue
		}
		bySig[v.Sig] = &agg{v: v, count: p.Counters["viol:"+v.Sig]}
		order = append(order, v.Sig)
	}
	sort.Strings(order)
	knownSeen := map[string]int64{}
	var unlisted []*agg
	for _, sig := range order {
		a := bySig[sig]
		matched := false
		for _, k := range known {
			if k.Status == "known" && k.Property == r.ID && sigMatch(k.Signature, sig) {
				knownSeen[k.Signature] += a.count
				matched = true
				break
			}
		}
		if !matched {
			unlisted = append(unlisted, a)
		}
	}
	for _, k := range known {
		if k.Status == "known" && k.Property == r.ID {
			fmt.Printf("KNOWN-FINDING: property=%s %s [signature=%q observed=%d]\n", r.ID, k.What, k.Signature, knownSeen[k.Signature])
		}
	}
	exit := 0
	nviol := 0
	// witnesses of earlier runs with the same seed and tier are stale
	if old, _ := filepath.Glob(filepath.Join(VerifDir(), "replay", r.ID, fmt.Sprintf("seed%d-%s-*", Seed(), Tier()))); len(old) > 0 {
		for _, d := range old {
			os.RemoveAll(d)
		}
	}
	for i, a := range unlisted {
		nviol++
		dir := filepath.Join(VerifDir(), "replay", r.ID, fmt.Sprintf("seed%d-%s-%d", Seed(), Tier(), i))
		os.RemoveAll(dir)
		os.MkdirAll(dir, 0o755)
		for name, content := range a.v.Witness {
			fp := filepath.Join(dir, filepath.FromSlash(name))
			os.MkdirAll(filepath.Dir(fp), 0o755)
			os.WriteFile(fp, []byte(content), 0o644)
		}
		meta, _ := json.MarshalIndent(map[string]any{"property": r.ID, "signature": a.v.Sig, "what": a.v.What, "count": a.count, "seed": Seed(), "tier": Tier()}, "", " ")
		os.WriteFile(filepath.Join(dir, "violation.json"), meta, 0o644)
		fmt.Printf("VIOLATION property=%s replay=%s\n", r.ID, dir)
		fmt.Printf("  signature: %s (x%d)\n  what: %s\n", a.v.Sig, a.count, a.v.What)
		exit = 1
	}
	broken := ""
	if r.MinEvents > 0 && p.Counters[r.EventsKey] < r.MinEvents {
		broken = fmt.Sprintf("monitor observed too little: %s=%d < %d", r.EventsKey, p.Counters[r.EventsKey], r.MinEvents)
	}
	if p.Evals == 0 {
		broken = "no case was evaluated"
	}
	if inc := p.Counters["inconclusive"]; inc > 20 && inc*5 > p.Evals {
		// a check most of whose cases could not be judged did not check anything
		broken = fmt.Sprintf("%d of %d cases were inconclusive", inc, p.Evals)
	}

	cov := map[string]any{
		"evaluations":         p.Evals,
		"distinct_nontrivial": len(p.Keys),
		"rule":                r.Rule,
		"samples":             p.Samples,
		"inconclusive":        p.Counters["inconclusive"],
	}
	if len(p.Inconclusive) > 0 {
		cov["inconclusive_cases"] = p.Inconclusive
	}
	if r.Exhaustive != nil {
		cov["exhaustive"] = *r.Exhaustive
	}
	counters := map[string]int64{}
	for k, v := range p.Counters {
		if !strings.HasPrefix(k, "viol:") && k != "inconclusive" {
			counters[k] = v
		}
	}
	cov["counters"] = counters
	if len(p.Maxes) > 0 {
		cov["maxima"] = p.Maxes
	}
	distinct := map[string]int{}
	for n, m := range p.sets {
		distinct[n] = len(m)
	}
	if len(distinct) > 0 {
		cov["distinct"] = distinct
	}
	ks := map[string]int64{}
	for k, v := range knownSeen {
		ks[k] = v
	}
	cov["known_findings_seen"] = ks
	for k, v := range r.Extra {
		cov[k] = v
	}
	if broken != "" {
		cov["broken"] = broken
	}
	ev := map[string]any{
		"property_id": r.ID,
		"tier":        Tier(),
		"seed":        Seed(),
		"level":       r.Level,
		"coverage":    cov,
		"assumptions": r.Assumptions,
		"wall_s":      time.Since(r.Start).Seconds(),
		"violations":  nviol,
	}
	b, _ := json.MarshalIndent(ev, "", " ")
	os.MkdirAll(filepath.Join(VerifDir(), "evidence"), 0o755)
	if err := os.WriteFile(filepath.Join(VerifDir(), "evidence", r.ID+".json"), b, 0o644); err != nil {
		fmt.Fprintf(os.Stderr, "evidence: %v\n", err)
		return 2
	}
	fmt.Printf("%s tier=%s seed=%d evaluations=%d distinct_nontrivial=%d violations=%d known=%d inconclusive=%d wall=%.1fs\n",
		r.ID, Tier(), Seed(), p.Evals, len(p.Keys), nviol, len(knownSeen), p.Counters["inconclusive"], time.Since(r.Start).Seconds())
	var cl []string
	for k, v := range counters {
		cl = append(cl, fmt.Sprintf("%s=%d", k, v))
	}
	for k, v := range p.Maxes {
		cl = append(cl, fmt.Sprintf("max.%s=%d", k, v))
	}
	for k, v := range distinct {
		cl = append(cl, fmt.Sprintf("distinct.%s=%d", k, v))
	}
	sort.Strings(cl)
	fmt.Printf("  observed: %s\n", strings.Join(cl, " "))
	if exit == 0 && broken != "" {
		fmt.Printf("BROKEN property=%s %s\n", r.ID, broken)
		return 2
	}
	return exit
}
