package h

import (
	"bytes"
	"context"
	"errors"
	"crypto/sha256"
	"encoding/hex"
	"fmt"
	"io/fs"
	"math/rand"
	"os"
	"os/exec"
	"path/filepath"
	"sort"
	"strconv"
	"strings"
	"sync"
	"sync/atomic"
	"syscall"
	"time"
)

// GoEnv is the environment every go command of the harness runs with.
func GoEnv() []string {
	env := os.Environ()
	env = append(env, "GOFLAGS=-mod=mod", "GOPROXY=off", "GOSUMDB=off", "GOTOOLCHAIN=local", "CGO_ENABLED=0")
	return env
}

// ModArgs returns the -modfile argument for go commands building the harness when the
// check runs against a scratch copy of the repository (VERIF_REPO + VERIF_MODFILE).
func ModArgs() []string {
	if m := os.Getenv("VERIF_MODFILE"); m != "" {
		return []string{"-modfile=" + m}
	}
	return nil
}

// Scratch creates a per-run scratch directory; the caller removes it.
func Scratch(id string) string {
	base := os.Getenv("VERIF_SCRATCH")
	if base == "" {
		base = os.TempDir()
	}
	d, err := os.MkdirTemp(base, "verif-"+id+"-")
	if err != nil {
		fmt.Fprintf(os.Stderr, "scratch: %v\n", err)
		os.Exit(2)
	}
	return d
}

// BuildCLI builds /repo/cmd/task (with -tags verif) into dir/task using the
// default go toolchain (the one the baseline suite uses).
func BuildCLI(dir string, extra ...string) (string, error) {
	out := filepath.Join(dir, "task")
	args := append([]string{"build", "-tags", "verif"}, extra...)
	args = append(args, "-o", out, "./cmd/task")
	cmd := exec.Command("go", args...)
	cmd.Dir = RepoDir()
	cmd.Env = GoEnv()
	b, err := cmd.CombinedOutput()
	if err != nil {
		return "", fmt.Errorf("go build cmd/task: %v\n%s", err, b)
	}
	return out, nil
}

// Result is the observation of one CLI invocation.
type Result struct {
	Exit     int // -1 if killed by signal
	Signal   string
	Stdout   string
	Stderr   string
	TimedOut bool // wall-clock watchdog fired: inconclusive, never a verdict
	CPU      time.Duration
	Hung     bool // HangDetect: the process was found quiescent (see CLI.HangDetect) and was stopped with SIGQUIT
}

// CLI describes one invocation.
type CLI struct {
	Bin     string
	Dir     string
	Args    []string
	Env     []string // appended to a minimal base environment
	Stdin   string
	Timeout time.Duration // watchdog (default 60s)
	KeepEnv bool
	// HangDetect: decide "hung" from the process state rather than from a deadline. The process group is sampled
	// twice a second; when in 20 consecutive samples it consists of the one process alone (no children that could
	// still finish), every thread of it sleeps and its CPU time has not moved, nothing can ever wake it: it is sent
	// SIGQUIT (the goroutine dump lands in Stderr) and Hung is set. A process that is merely slow or starved has a
	// runnable thread or a child and never qualifies. Only for invocations that use no timers of their own.
	HangDetect bool
}

// groupQuiescent reports whether process group pgid is exactly the process pgid with all threads asleep; cpu is
// the process's utime+stime in ticks.
func groupQuiescent(pgid int) (quiet bool, cpu int64) {
	ents, err := os.ReadDir("/proc")
	if err != nil {
		return false, 0
	}
	members := 0
	for _, e := range ents {
		pid, err := strconv.Atoi(e.Name())
		if err != nil {
			continue
		}
		b, err := os.ReadFile("/proc/" + e.Name() + "/stat")
		if err != nil {
			continue
		}
		// pid (comm) state ppid pgrp ...
		k := bytes.LastIndexByte(b, ')')
		if k < 0 {
			continue
		}
		f := strings.Fields(string(b[k+1:]))
		if len(f) < 13 {
			continue
		}
		if g, _ := strconv.Atoi(f[2]); g != pgid {
			continue
		}
		members++
		if pid != pgid {
			return false, 0
		}
		ut, _ := strconv.ParseInt(f[11], 10, 64)
		st, _ := strconv.ParseInt(f[12], 10, 64)
		cpu = ut + st
	}
	if members != 1 {
		return false, 0
	}
	tasks, err := os.ReadDir(fmt.Sprintf("/proc/%d/task", pgid))
	if err != nil || len(tasks) == 0 {
		return false, 0
	}
	for _, t := range tasks {
		b, err := os.ReadFile(fmt.Sprintf("/proc/%d/task/%s/stat", pgid, t.Name()))
		if err != nil {
			return false, 0
		}
		k := bytes.LastIndexByte(b, ')')
		if k < 0 || k+2 >= len(b) || b[k+2] != 'S' {
			return false, 0
		}
	}
	return true, cpu
}

// BaseEnv is the minimal, controlled environment given to the CLI.
func BaseEnv(home string) []string {
	return []string{"PATH=/usr/bin:/bin", "HOME=" + home, "LANG=C", "NO_COLOR=1", "TASK_COLOR=false"}
}

// Run executes the invocation.
func (c CLI) Run() Result {
	to := c.Timeout
	if to == 0 {
		to = 60 * time.Second
	}
	ctx, cancel := context.WithTimeout(context.Background(), to)
	defer cancel()
	cmd := exec.CommandContext(ctx, c.Bin, c.Args...)
	cmd.Dir = c.Dir
	if c.KeepEnv {
		cmd.Env = append(os.Environ(), c.Env...)
	} else {
		cmd.Env = append(BaseEnv(c.Dir), c.Env...)
	}
	var so, se bytes.Buffer
	cmd.Stdout = &so
	cmd.Stderr = &se
	if c.Stdin != "" {
		cmd.Stdin = strings.NewReader(c.Stdin)
	}
	cmd.SysProcAttr = &syscall.SysProcAttr{Setpgid: true}
	cmd.Cancel = func() error { return syscall.Kill(-cmd.Process.Pid, syscall.SIGKILL) }
	// WaitDelay only bounds the wait for orphaned grandchildren that keep the pipes open. It must be
	// generous: on a loaded machine the goroutines copying the pipes can be starved for seconds, and a
	// short delay would cut the captured output off (seen as exit 0 with empty stdout/stderr).
	cmd.WaitDelay = 60 * time.Second
	var hung atomic.Bool
	err := cmd.Start()
	if err == nil {
		stop := make(chan struct{})
		if c.HangDetect {
			go func() {
				streak, last := 0, int64(-1)
				for {
					select {
					case <-stop:
						return
					case <-time.After(500 * time.Millisecond):
					}
					q, cpu := groupQuiescent(cmd.Process.Pid)
					if q && cpu == last {
						streak++
					} else {
						streak = 0
					}
					last = cpu
					if streak >= 20 {
						hung.Store(true)
						syscall.Kill(cmd.Process.Pid, syscall.SIGQUIT)
						select {
						case <-stop:
						case <-time.After(10 * time.Second):
							syscall.Kill(-cmd.Process.Pid, syscall.SIGKILL)
						}
						return
					}
				}
			}()
		}
		err = cmd.Wait()
		close(stop)
	}
	r := Result{Stdout: so.String(), Stderr: se.String(), Hung: hung.Load()}
	if errors.Is(err, exec.ErrWaitDelay) {
		r.TimedOut = true // output may be incomplete: inconclusive, never a verdict
	}
	if cmd.ProcessState != nil {
		r.CPU = cmd.ProcessState.UserTime() + cmd.ProcessState.SystemTime()
		r.Exit = cmd.ProcessState.ExitCode()
		if ws, ok := cmd.ProcessState.Sys().(syscall.WaitStatus); ok && ws.Signaled() {
			r.Signal = ws.Signal().String()
		}
	} else if err != nil {
		r.Exit = -2
		r.Stderr += "\n[harness] " + err.Error()
	}
	if ctx.Err() != nil {
		r.TimedOut = true
	}
	return r
}

// Crashed reports whether the output looks like a Go runtime crash.
func (r Result) Crashed() bool {
	return r.Exit == 2 && (strings.Contains(r.Stderr, "panic:") || strings.Contains(r.Stderr, "fatal error:")) ||
		strings.Contains(r.Stderr, "goroutine 1 [") || (r.Signal != "" && !r.TimedOut && r.Signal != "killed")
}

// Snapshot is a recursive listing of a directory: path -> "type size sha mtime".
type Snapshot map[string]string

// Snap takes a snapshot of dir; skip lists top-level relative paths to ignore.
func Snap(dir string, withMtime bool, skip ...string) Snapshot {
	s := Snapshot{}
	filepath.WalkDir(dir, func(p string, d fs.DirEntry, err error) error {
		if err != nil {
			return nil
		}
		rel, _ := filepath.Rel(dir, p)
		if rel == "." {
			return nil
		}
		for _, sk := range skip {
			if rel == sk || strings.HasPrefix(rel, sk+"/") {
				if d.IsDir() {
					return filepath.SkipDir
				}
				return nil
			}
		}
		info, err := d.Info()
		if err != nil {
			return nil
		}
		desc := info.Mode().Type().String()
		if info.Mode().IsRegular() {
			b, _ := os.ReadFile(p)
			h := sha256.Sum256(b)
			desc = fmt.Sprintf("f %d %s", info.Size(), hex.EncodeToString(h[:8]))
		} else if d.IsDir() {
			desc = "d"
		}
		if withMtime && !d.IsDir() {
			desc += fmt.Sprintf(" m%d", info.ModTime().UnixNano())
		}
		s[rel] = desc
		return nil
	})
	return s
}

// Diff lists the differences between two snapshots.
func (s Snapshot) Diff(o Snapshot) []string {
	var out []string
	for k, v := range s {
		if ov, ok := o[k]; !ok {
			out = append(out, "removed "+k)
		} else if ov != v {
			out = append(out, fmt.Sprintf("changed %s: %s -> %s", k, v, ov))
		}
	}
	for k, v := range o {
		if _, ok := s[k]; !ok {
			out = append(out, "added "+k+" ("+v+")")
		}
	}
	sort.Strings(out)
	return out
}

// WriteTree writes files (relative path -> content) under dir.
func WriteTree(dir string, files map[string]string) error {
	for name, content := range files {
		fp := filepath.Join(dir, filepath.FromSlash(name))
		if err := os.MkdirAll(filepath.Dir(fp), 0o755); err != nil {
			return err
		}
		if err := os.WriteFile(fp, []byte(content), 0o644); err != nil {
			return err
		}
	}
	return nil
}

// ReadFile returns the file content or "".
func ReadFile(p string) string {
	b, _ := os.ReadFile(p)
	return string(b)
}

// Parallel runs f(i) for i in [0,n) on w workers.
func Parallel(n, w int, f func(i int)) {
	if w < 1 {
		w = 1
	}
	var wg sync.WaitGroup
	ch := make(chan int)
	for k := 0; k < w; k++ {
		wg.Add(1)
		go func() {
			defer wg.Done()
			for i := range ch {
				f(i)
			}
		}()
	}
	for i := 0; i < n; i++ {
		ch <- i
	}
	close(ch)
	wg.Wait()
}

// Rng returns a PRNG derived from the run seed and a per-case stream id.
func Rng(stream ...int64) *rand.Rand {
	s := Seed()*1000003 + 12345
	for _, x := range stream {
		s = s*6364136223846793005 + x + 1442695040888963407
	}
	return rand.New(rand.NewSource(s))
}

// Truncate shortens s for reports.
func Truncate(s string, n int) string {
	if len(s) <= n {
		return s
	}
	return s[:n] + fmt.Sprintf("…(+%d bytes)", len(s)-n)
}
