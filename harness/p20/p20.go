// Package p20 is the check of property C20 (engine E4): black-box runs of the
// rebuilt CLI against an in-harness HTTP server whose content version and fault
// mode the history controls, judged by a history monitor that encodes exactly
// the clauses of the statement (trust: 104 / nothing unapproved runs; cache
// availability; 105 without --insecure; 106 offline without cache).
package p20

import (
	"crypto/sha256"
	"encoding/json"
	"fmt"
	"math/rand"
	"os"
	"path/filepath"
	"sort"
	"strings"
	"sync"
	"time"

	"github.com/go-task/task/v3/verifh/h"
)

// ---------------------------------------------------------------- topologies

type topo struct {
	Name  string
	Files []string // remote files, in fetch order
	Local string   // local root Taskfile ("" = the root itself is remote); BASE is replaced
	Root  string   // remote root file for -t
	Tasks []string // tasks named on the command line
	Want  []string // per task: the remote file whose marker it appends
	Role  string
}

var topos = []topo{
	{Name: "root", Files: []string{"root.yml"}, Root: "root.yml", Tasks: []string{"run"}, Want: []string{"root.yml"},
		Role: "the root Taskfile is remote (-t http://...)"},
	{Name: "incl", Files: []string{"inc.yml"}, Local: "version: '3'\nincludes:\n  r: BASE/inc.yml\ntasks:\n  local:\n    cmds: ['true']\n",
		Tasks: []string{"r:run"}, Want: []string{"inc.yml"}, Role: "a local root Taskfile includes a remote one"},
	{Name: "chain", Files: []string{"a.yml", "b.yml"}, Local: "version: '3'\nincludes:\n  a:\n    taskfile: BASE/a.yml\ntasks:\n  local:\n    cmds: ['true']\n",
		Tasks: []string{"a:run", "a:b:run"}, Want: []string{"a.yml", "b.yml"}, Role: "local root -> remote a.yml -> (relative) remote b.yml"},
	{Name: "rootchain", Files: []string{"a.yml", "b.yml"}, Root: "a.yml", Tasks: []string{"run", "b:run"}, Want: []string{"a.yml", "b.yml"},
		Role: "remote root a.yml -> (absolute URL) remote b.yml"},
}

// content is the Taskfile of version ver of a remote file. Each version appends
// its own marker "<file>=<ver>" to $C20_TRACE.
func content(tp *topo, base, file string, ver int) string {
	var b strings.Builder
	fmt.Fprintf(&b, "version: '3'\n# %s, content version %d\n", file, ver)
	if file == "a.yml" {
		if tp.Name == "chain" {
			b.WriteString("includes:\n  b: ./b.yml\n")
		} else {
			fmt.Fprintf(&b, "includes:\n  b: %s/b.yml\n", base)
		}
	}
	fmt.Fprintf(&b, "tasks:\n  run:\n    cmds:\n      - printf '%s=%d\\n' >> \"$C20_TRACE\"\n", file, ver)
	return b.String()
}

// ---------------------------------------------------------------- histories

type step struct {
	Mode  string         `json:"server"`
	Vers  map[string]int `json:"versions"`
	Flags flagset        `json:"flags"`
	Role  string         `json:"role,omitempty"`
}

type history struct {
	Kind  string `json:"kind"` // random | table
	Topo  string `json:"topology"`
	Cell  string `json:"cell,omitempty"`
	Steps []step `json:"steps"`
	tp    *topo
	idx   int
}

func (hs *history) key() string {
	var b strings.Builder
	b.WriteString(hs.Topo)
	for _, s := range hs.Steps {
		var vs []string
		for _, f := range hs.tp.Files {
			vs = append(vs, fmt.Sprint(s.Vers[f]))
		}
		fmt.Fprintf(&b, "|%s/%s/%s", s.Mode, strings.Join(vs, ","), s.Flags)
	}
	return b.String()
}

var faults = []string{mUp, m404, m500, mRefused, mHang}
var cacheStates = []string{"none", "approved-v1", "approved-v1+server-v2"}

// tableFlagSets: {--yes?} x {default, --download, --offline} x {no --expiry, --expiry 0, --expiry 1000h} x {--insecure?}
func tableFlagSets() []flagset {
	var out []flagset
	for _, yes := range []bool{false, true} {
		for _, mode := range []string{"", "download", "offline"} {
			for _, exp := range []string{"", "0", "1000h"} {
				for _, ins := range []bool{true, false} {
					out = append(out, flagset{Yes: yes, Download: mode == "download", Offline: mode == "offline", Expiry: exp, Insecure: ins})
				}
			}
		}
	}
	return out
}

// roModes are the invocation modes that load the remote Taskfile(s) without
// running commands. None of them may count as an approval.
var roModes = []string{"dry", "status", "list-all", "summary"}

// roFlagSets: {--yes?} x {default, --download, --offline}, all with --insecure, plus one without.
func roFlagSets() []flagset {
	var out []flagset
	for _, yes := range []bool{false, true} {
		for _, mode := range []string{"", "download", "offline"} {
			out = append(out, flagset{Yes: yes, Download: mode == "download", Offline: mode == "offline", Insecure: true})
		}
	}
	return append(out, flagset{})
}

// roTableHistories: every cell of cache state x server fault x read-only mode x
// roFlagSets. The cell's invocation is followed by probes that make a wrongly
// recorded approval visible: an ordinary --offline run (would run what was
// cached as approved) and, if the server is up, an ordinary online run (would
// not be prompted if the checksum was stored as approved).
func roTableHistories(tp *topo) []*history {
	var out []*history
	for _, cs := range cacheStates {
		for _, fault := range faults {
			for _, md := range roModes {
				for _, fs := range roFlagSets() {
					fs.Mode = md
					hs := &history{Kind: "table", Topo: tp.Name, tp: tp}
					hs.Cell = fmt.Sprintf("%s | cache=%s | server=%s | %s", tp.Name, cs, fault, fs)
					sv := 1
					if cs != "none" {
						hs.Steps = append(hs.Steps, step{Mode: mUp, Vers: allVers(tp, 1), Flags: flagset{Yes: true, Insecure: true}, Role: "prefix"})
					}
					if cs == "approved-v1+server-v2" {
						sv = 2
					}
					if fault == mHang {
						fs.Timeout = "1s"
					}
					hs.Steps = append(hs.Steps, step{Mode: fault, Vers: allVers(tp, sv), Flags: fs, Role: "cell"})
					hs.Steps = append(hs.Steps, step{Mode: fault, Vers: allVers(tp, sv), Flags: flagset{Offline: true, Insecure: true}, Role: "probe"})
					if fault == mUp {
						hs.Steps = append(hs.Steps, step{Mode: fault, Vers: allVers(tp, sv), Flags: flagset{Insecure: true}, Role: "probe"})
					}
					out = append(out, hs)
				}
			}
		}
	}
	return out
}

func allVers(tp *topo, v int) map[string]int {
	m := map[string]int{}
	for _, f := range tp.Files {
		m[f] = v
	}
	return m
}

func tableHistories(tp *topo) []*history {
	var out []*history
	for _, cs := range cacheStates {
		for _, fault := range faults {
			for _, fs := range tableFlagSets() {
				hs := &history{Kind: "table", Topo: tp.Name, tp: tp}
				hs.Cell = fmt.Sprintf("%s | cache=%s | server=%s | %s", tp.Name, cs, fault, fs)
				sv := 1
				if cs != "none" {
					hs.Steps = append(hs.Steps, step{Mode: mUp, Vers: allVers(tp, 1), Flags: flagset{Yes: true, Insecure: true}, Role: "prefix"})
				}
				if cs == "approved-v1+server-v2" {
					sv = 2
				}
				if fault == mHang {
					fs.Timeout = "1s"
				}
				hs.Steps = append(hs.Steps, step{Mode: fault, Vers: allVers(tp, sv), Flags: fs, Role: "cell"})
				out = append(out, hs)
			}
		}
	}
	return out
}

func pickW(r *rand.Rand, opts []string, w []int) string {
	t := 0
	for _, x := range w {
		t += x
	}
	n := r.Intn(t)
	for i, x := range w {
		if n < x {
			return opts[i]
		}
		n -= x
	}
	return opts[0]
}

func randomHistory(r *rand.Rand, tp *topo) *history {
	hs := &history{Kind: "random", Topo: tp.Name, tp: tp}
	n := 5 + r.Intn(6)
	vers := map[string]int{}
	for _, f := range tp.Files {
		vers[f] = 1 + r.Intn(3)
	}
	for i := 0; i < n; i++ {
		for _, f := range tp.Files {
			if r.Intn(100) < 35 {
				vers[f] = 1 + r.Intn(3)
			}
		}
		mode := pickW(r, []string{mUp, m404, m500, mRefused, mHang, mHangGet, mHangBody}, []int{52, 8, 10, 16, 6, 4, 4})
		var fl flagset
		fl.Yes = r.Intn(100) < 35
		switch pickW(r, []string{"", "download", "offline", "offenv"}, []int{50, 18, 24, 8}) {
		case "download":
			fl.Download = true
		case "offline":
			fl.Offline = true
		case "offenv":
			fl.OfflineEnv = true
		}
		fl.Expiry = pickW(r, []string{"", "0", "1000h"}, []int{40, 20, 40})
		fl.Insecure = r.Intn(100) < 90
		fl.Mode = pickW(r, append([]string{""}, roModes...), []int{70, 9, 7, 7, 7})
		if !fl.Download && fl.Mode == "" && r.Intn(100) < 7 {
			fl.ClearCache = true
		}
		if isHang(mode) || r.Intn(100) < 15 {
			fl.Timeout = "1s"
		}
		cp := map[string]int{}
		for k, v := range vers {
			cp[k] = v
		}
		hs.Steps = append(hs.Steps, step{Mode: mode, Vers: cp, Flags: fl})
	}
	return hs
}

// ---------------------------------------------------------------- running a history

type stepRecord struct {
	Step    step     `json:"step"`
	Args    []string `json:"argv"`
	Before  string   `json:"monitor_state_before"`
	Obs     obs      `json:"observed"`
	Judged  []string `json:"judged"`
	Verdict []string `json:"findings,omitempty"`
	After   string   `json:"monitor_state_after"`
}

type histResult struct {
	Records   []stepRecord
	Findings  []finding
	FindStep  []int
	Inconc    []string
	Completed bool
	PrefixOK  bool
	Base      string
	Files     map[string]string
}

func runHistory(bin, scratch string, hs *history, part *h.Partial) *histResult {
	res := &histResult{Files: map[string]string{}, PrefixOK: true}
	tp := hs.tp
	dir := filepath.Join(scratch, fmt.Sprintf("h%06d", hs.idx))
	proj := filepath.Join(dir, "proj")
	tmp := filepath.Join(dir, "tasktmp")
	trace := filepath.Join(dir, "trace.txt")
	os.MkdirAll(proj, 0o755)
	defer os.RemoveAll(dir)

	var srv *server
	var err error
	prefix := fmt.Sprintf("/h%d", hs.idx)
	srv, err = newServer(prefix, func(file string, ver int) string { return content(tp, srv.base(), file, ver) })
	if err != nil {
		res.Inconc = append(res.Inconc, "server: "+err.Error())
		return res
	}
	defer srv.close()
	base := srv.base()
	res.Base = base
	for _, f := range tp.Files {
		for v := 1; v <= 3; v++ {
			c := content(tp, base, f, v)
			res.Files[fmt.Sprintf("server/v%d/%s", v, f)] = c
			res.Files[fmt.Sprintf("server/v%d/%s.sha256", v, f)] = fmt.Sprintf("%x\n", sha256.Sum256([]byte(c)))
		}
	}
	var pre []string
	if tp.Local != "" {
		local := strings.ReplaceAll(tp.Local, "BASE", base)
		os.WriteFile(filepath.Join(proj, "Taskfile.yml"), []byte(local), 0o644)
		res.Files["proj/Taskfile.yml"] = local
	} else {
		pre = []string{"-t", base + "/" + tp.Root}
	}

	mon := newMonitor(tp.Files, tp.Want)
	for i, st := range hs.Steps {
		if err := srv.set(st.Mode, st.Vers); err != nil {
			res.Inconc = append(res.Inconc, fmt.Sprintf("step %d: could not re-listen: %v", i, err))
			return res
		}
		os.Remove(trace)
		srv.beginStep()
		args := append(append([]string{}, pre...), st.Flags.args()...)
		if st.Flags.Mode != "list-all" {
			args = append(args, tp.Tasks...)
		}
		env := append([]string{"TASK_X_REMOTE_TASKFILES=1", "TASK_TEMP_DIR=" + tmp, "C20_TRACE=" + trace}, st.Flags.env()...)
		r := h.CLI{Bin: bin, Dir: proj, Args: args, Env: env, Timeout: 60 * time.Second}.Run()
		sv, foreign, quiet := srv.endStep()
		if !quiet {
			res.Inconc = append(res.Inconc, fmt.Sprintf("step %d: server handlers still running 5s after the CLI exited", i))
			return res
		}
		o := obs{Exit: r.Exit, Trace: h.ReadFile(trace), Served: sv, Stdout: h.Truncate(r.Stdout, 1500), Stderr: h.Truncate(r.Stderr, 1500), TimedOut: r.TimedOut, Crashed: r.Crashed()}
		o.markers, o.badTrace = parseTrace(o.Trace)
		o.deadline = r.Exit == 108 || strings.Contains(r.Stdout, "deadline exceeded") || strings.Contains(r.Stderr, "deadline exceeded")
		rec := stepRecord{Step: st, Args: args, Before: mon.stateString(), Obs: o}
		part.Count("cli_runs", 1)
		if o.Crashed {
			part.Count("cli_crashes", 1)
		}
		part.Count("gets_served", int64(len(sv)))
		part.Count("markers_seen", int64(len(o.markers)))
		part.SetAdd("exit_codes", fmt.Sprint(r.Exit))
		part.SetAdd("server_x_exit", fmt.Sprintf("%s/%d", faultTag(st.Mode), r.Exit))
		if foreign > 0 {
			res.Inconc = append(res.Inconc, fmt.Sprintf("step %d: %d requests for another history reached this server", i, foreign))
			return res
		}
		v := mon.step(st.Mode, st.Flags, &o)
		rec.Judged, rec.After = v.Judged, mon.stateString()
		for _, j := range v.Judged {
			part.Count("judged:"+j, 1)
		}
		for _, f := range v.Findings {
			rec.Verdict = append(rec.Verdict, f.Sig)
			res.Findings = append(res.Findings, f)
			res.FindStep = append(res.FindStep, i)
		}
		for _, s := range v.Inconc {
			res.Inconc = append(res.Inconc, fmt.Sprintf("step %d (%s, server %s): %s", i, st.Flags, st.Mode, s))
		}
		res.Records = append(res.Records, rec)
		if st.Role == "prefix" && !mon.allApproved() {
			res.PrefixOK = false
			res.Inconc = append(res.Inconc, fmt.Sprintf("prefix did not establish an approved cache: exit %d trace %q stderr %s", o.Exit, o.Trace, h.Truncate(o.Stderr, 300)))
			return res
		}
		if o.TimedOut {
			return res
		}
		if len(v.Findings) > 0 && (len(o.markers) > 0 || o.Exit == 0) {
			// something ran (or was accepted) that the monitor's state does not account for:
			// later steps of this history would only repeat the same finding
			res.Completed = true
			return res
		}
	}
	res.Completed = true
	return res
}

func repro(hs *history, res *histResult, upto int) string {
	var b strings.Builder
	fmt.Fprintf(&b, "Manual reproduction (topology %s: %s)\n", hs.tp.Name, hs.tp.Role)
	fmt.Fprintf(&b, "Serve the files under server/v<k>/ with Content-Type text/yaml at %s/<file>; cd proj; fresh TASK_TEMP_DIR.\n", res.Base)
	fmt.Fprintf(&b, "env: TASK_X_REMOTE_TASKFILES=1 TASK_TEMP_DIR=<fresh dir> C20_TRACE=<trace file, emptied before every step>\n\n")
	for i, r := range res.Records {
		if i > upto {
			break
		}
		var vs []string
		for _, f := range hs.tp.Files {
			vs = append(vs, fmt.Sprintf("%s=v%d", f, r.Step.Vers[f]))
		}
		fmt.Fprintf(&b, "step %d: server %s (%s)\n  $ %stask %s\n  -> exit %d, trace %q, GETs served %v\n  monitor: %s -> %s; judged %v %v\n",
			i, r.Step.Mode, strings.Join(vs, " "), envPrefix(r.Step.Flags), strings.Join(r.Args, " "), r.Obs.Exit, r.Obs.Trace, r.Obs.Served, r.Before, r.After, r.Judged, r.Verdict)
	}
	return b.String()
}

func envPrefix(f flagset) string {
	if f.OfflineEnv {
		return "TASK_OFFLINE=1 "
	}
	return ""
}

// ---------------------------------------------------------------- Run

// Run is the check of property C20.
func Run(id string, start time.Time) int {
	scratch := h.Scratch(id)
	defer os.RemoveAll(scratch)
	bin, err := h.BuildCLI(scratch)
	if err != nil {
		fmt.Fprintf(os.Stderr, "%v\n", err)
		return 2
	}
	part := h.NewPartial()

	// case list: a function of seed and tier only
	var hists []*history
	var tableTopos []*topo
	if h.Thorough() {
		for i := range topos {
			tableTopos = append(tableTopos, &topos[i])
		}
	} else {
		// quick: the full table for the remote-root topology and for one seed-chosen include topology
		tableTopos = append(tableTopos, &topos[0], &topos[1+int(h.Seed()%3+3)%3])
	}
	// the read-only-mode table: all topologies (thorough) / one seed-chosen topology (quick)
	var roTopos []*topo
	if h.Thorough() {
		for i := range topos {
			roTopos = append(roTopos, &topos[i])
		}
	} else {
		roTopos = append(roTopos, &topos[int(h.Seed()%4+4)%4])
	}
	tableSize := 0
	for _, tp := range tableTopos {
		t := tableHistories(tp)
		tableSize += len(t)
		hists = append(hists, t...)
	}
	roSize := 0
	for _, tp := range roTopos {
		t := roTableHistories(tp)
		roSize += len(t)
		hists = append(hists, t...)
	}
	tableSize += roSize
	nRandom := h.Pick(300, 5000)
	for i := 0; i < nRandom; i++ {
		r := h.Rng(20, int64(i))
		hists = append(hists, randomHistory(r, &topos[i%len(topos)]))
	}
	// spread the slow (hang) histories over the workers
	order := h.Rng(20, -1).Perm(len(hists))
	for i, hs := range hists {
		hs.idx = i
	}

	var mu sync.Mutex
	visited := map[string]bool{}
	sampleKinds := map[string]int{}
	h.Parallel(len(hists), 32, func(k int) {
		hs := hists[order[k]]
		res := runHistory(bin, scratch, hs, part)
		judged := 0
		for _, r := range res.Records {
			judged += len(r.Judged)
		}
		part.Eval(hs.key(), judged > 0)
		part.Count("histories:"+hs.Kind, 1)
		part.Count("steps", int64(len(res.Records)))
		part.SetAdd("topologies", hs.Topo)
		for _, s := range res.Inconc {
			part.Inconc(fmt.Sprintf("%s history %d (%s): %s", hs.Kind, hs.idx, hs.Topo, s))
		}
		if hs.Kind == "table" && res.Completed && res.PrefixOK {
			mu.Lock()
			visited[hs.Cell] = true
			mu.Unlock()
		}
		for i, f := range res.Findings {
			w := map[string]string{}
			for k, v := range res.Files {
				w[k] = v
			}
			cj, _ := json.MarshalIndent(map[string]any{
				"property": id, "seed": h.Seed(), "tier": h.Tier(), "history_index": hs.idx, "history": hs, "base_url": res.Base,
				"violating_step": res.FindStep[i], "signature": f.Sig, "what": f.What, "records": res.Records,
			}, "", " ")
			w["case.json"] = string(cj)
			w["REPRO.txt"] = repro(hs, res, res.FindStep[i])
			part.Violation(f.Sig, fmt.Sprintf("[%s, %s history, step %d] %s", hs.Topo, hs.Kind, res.FindStep[i], f.What), w)
		}
		// samples: a few of each kind, preferring ones with findings or several judged clauses
		mu.Lock()
		kind := hs.Kind
		if len(res.Findings) > 0 {
			kind += "+finding"
		}
		take := sampleKinds[kind] < 2
		if take {
			sampleKinds[kind]++
		}
		mu.Unlock()
		if take && len(res.Records) > 0 {
			part.Sample(map[string]any{"kind": hs.Kind, "topology": hs.Topo, "cell": hs.Cell, "steps": slim(res.Records)}, 8)
		}
	})

	nvis := 0
	for range visited {
		nvis++
	}
	exhaustive := nvis == tableSize && tableSize > 0
	var tnames []string
	for _, tp := range tableTopos {
		tnames = append(tnames, tp.Name)
	}
	sort.Strings(tnames)
	var ronames []string
	for _, tp := range roTopos {
		ronames = append(ronames, tp.Name)
	}
	sort.Strings(ronames)
	rule := "case = one history (a fresh project dir, fresh TASK_TEMP_DIR and an own HTTP server on 127.0.0.1) of CLI invocations, each preceded by setting the server's state " +
		"(content version 1-3 per remote file; up, 404, 500, connection refused, hang before/after HEAD/mid-body). " +
		"(a) table: every cell of {no cache, approved v1, approved v1 + server has v2} x {up, 404, 500, refused, hang} x 36 flag sets " +
		"({--yes?} x {-, --download, --offline} x {no --expiry, --expiry 0, --expiry 1000h} x {--insecure?}; --timeout 1s in hang cells) per topology in coverage.table_topologies; " +
		"(a2) read-only table: every cell of the same cache states x server faults x {--dry, --status, --list-all, --summary} x 7 flag sets ({--yes?} x {-, --download, --offline} with --insecure, and one without) " +
		"per topology in coverage.readonly_table_topologies, each followed by probe runs (an ordinary --offline run and, with the server up, an ordinary online run) that expose an approval recorded by the read-only run; " +
		"(b) seeded random histories of 5-10 steps over the same alphabet plus --clear-cache, --timeout 1s, TASK_OFFLINE=1 and the read-only modes (30% of the steps), over 4 topologies (remote root; remote include; local->remote->remote; remote root->remote). " +
		"Oracle: history monitor whose state (approved+cached version per remote file) is updated only from markers that ran, exit codes and GETs answered under --yes; clauses: " +
		"safety (a marker only of the approved version), 104+empty trace when unapproved content was fetched without --yes, exit 0 + the cached version's marker under --offline/refused/hang/5xx once approved, " +
		"105 without --insecure, 106 for --offline without cache. non-trivial = at least one clause had an obligation in the history; distinct by (topology, per-step server state, versions, flags)."
	level := "exploration"
	if exhaustive {
		level = "fault_enumeration"
	}
	return h.Finish(h.Report{
		ID: id, Level: level, Rule: rule, Exhaustive: &exhaustive, Start: start,
		Assumptions: []string{
			"read-only modes (--dry, --status, --list-all, --summary) are judged for 104/105/106 and safety like any other run and never count as an approval unless --yes is given; what they print, their exit status on approved content and their use of the cache when the server is unavailable are not judged",
			"no terminal is attached (stdin is /dev/null), so the only way to approve is --yes; interactive approval is not exercised here",
			"git transport is not exercised (no git server offline); the HTTP node drives the shared reader/cache code",
			"freshness (cached copy vs newer server content when both are legitimate) is not judged",
			"--download together with an unavailable server is not judged for availability (the user asked for a download; the statement is silent)",
			"a 404 is not treated as 'network unavailable'; 5xx, refused and hang are (DESIGN C20)",
			"expiry is only ever 0 or 1000h, so no verdict depends on the clock; CLI-side fetch timeouts against a healthy server are inconclusive",
		},
		Extra: map[string]any{
			"table_cells":               tableSize,
			"table_visited":             nvis,
			"table_topologies":          tnames,
			"readonly_table_cells":      roSize,
			"readonly_table_topologies": ronames,
			"exhaustive_scope":          "the (cache state x server fault x flag set) table of the listed topologies only; random histories are a sample",
			"random_histories":          nRandom,
			"history_generator":         "h.Rng(20, i)",
		},
		MinEvents: 200, EventsKey: "cli_runs",
	}, part)
}

func slim(rs []stepRecord) []map[string]any {
	var out []map[string]any
	for _, r := range rs {
		out = append(out, map[string]any{
			"server": r.Step.Mode, "versions": r.Step.Vers, "argv": strings.Join(r.Args, " "), "offline_env": r.Step.Flags.OfflineEnv,
			"exit": r.Obs.Exit, "trace": r.Obs.Trace, "served": r.Obs.Served, "state_before": r.Before, "state_after": r.After, "judged": r.Judged, "findings": r.Verdict,
		})
	}
	return out
}
