package p20

import (
	"fmt"
	"net"
	"net/http"
	"os"
	"strconv"
	"strings"
	"sync"
	"time"
)

// Server fault modes. The three hang modes differ in where the request blocks;
// all of them block until the client gives up (or the step ends).
const (
	mUp       = "up"
	m404      = "404"
	m500      = "500"
	mRefused  = "refused"
	mHang     = "hang"     // every request blocks before any byte is answered
	mHangGet  = "hangget"  // HEAD is answered, GET blocks before the headers
	mHangBody = "hangbody" // GET sends headers and half of the body, then blocks
)

func isHang(m string) bool { return m == mHang || m == mHangGet || m == mHangBody }

// unavailable is the set of server states the property calls "network unavailable".
func unavailable(m string) bool { return m == mRefused || m == m500 || isHang(m) }

// faultTag is the role tag used in signatures (all hang flavours are one cause).
func faultTag(m string) string {
	if isHang(m) {
		return "hang"
	}
	return m
}

// Ports are handed out explicitly from below the kernel's ephemeral range so
// that a port stays reserved for its history while the listener is closed
// ("connection refused"): no outgoing connection of a child can be given the
// same port by the kernel. Within the process a port belongs to one history at
// a time (free list); across processes (several checks running at once) each
// process owns one block of ports, claimed by listening on an abstract-namespace
// unix socket: that leaves nothing on disk and is released when the process ends.
const (
	portBase   = 14000
	blockSize  = 100
	portBlocks = 180 // 14000 .. 31999
)

var (
	portOnce  sync.Once
	portFree  chan int
	portClaim net.Listener // held for the life of the process
	portErr   error
)

func claimPorts() {
	start := os.Getpid() % portBlocks
	for i := 0; i < portBlocks; i++ {
		k := (start + i) % portBlocks
		ln, err := net.Listen("unix", fmt.Sprintf("@verif-p20-ports-%d", k))
		if err != nil {
			continue
		}
		portClaim = ln
		portFree = make(chan int, blockSize)
		for p := 0; p < blockSize; p++ {
			portFree <- portBase + k*blockSize + p
		}
		return
	}
	portErr = fmt.Errorf("no free block of ports (are %d checks running at once?)", portBlocks)
}

type served struct {
	File string `json:"file"`
	Ver  int    `json:"ver"`
}

type server struct {
	mu      sync.Mutex
	port    int
	prefix  string // unique per history: guards against cross-talk
	ln      net.Listener
	srv     *http.Server
	mode    string
	vers    map[string]int
	content func(file string, ver int) string
	served  []served
	reqs    int
	foreign int
	active  int // handlers currently running
	release chan struct{}
}

func newServer(prefix string, content func(file string, ver int) string) (*server, error) {
	s := &server{prefix: prefix, content: content, vers: map[string]int{}, mode: mRefused, release: make(chan struct{})}
	portOnce.Do(claimPorts)
	if portErr != nil {
		return nil, portErr
	}
	for try := 0; try < blockSize; try++ {
		p := <-portFree
		ln, err := net.Listen("tcp", "127.0.0.1:"+strconv.Itoa(p))
		if err != nil {
			// somebody outside the harness uses it: try it again later, after the others
			portFree <- p
			continue
		}
		s.port = p
		s.start(ln)
		return s, nil
	}
	return nil, fmt.Errorf("could not bind any port of this process's block")
}

func (s *server) base() string { return fmt.Sprintf("http://127.0.0.1:%d%s", s.port, s.prefix) }

func (s *server) start(ln net.Listener) {
	s.ln = ln
	s.srv = &http.Server{Handler: http.HandlerFunc(s.handle)}
	go s.srv.Serve(ln)
}

// listening switches the listener on or off. Off = the port is closed, so a
// connect() is answered with RST (ECONNREFUSED).
func (s *server) listening(on bool) error {
	if on && s.srv == nil {
		var ln net.Listener
		var err error
		for try := 0; try < 250; try++ {
			ln, err = net.Listen("tcp", "127.0.0.1:"+strconv.Itoa(s.port))
			if err == nil {
				break
			}
			time.Sleep(20 * time.Millisecond)
		}
		if err != nil {
			return err
		}
		s.start(ln)
	} else if !on && s.srv != nil {
		// Close the listener ourselves as well: if the Serve goroutine has not
		// been scheduled yet (loaded machine), Server.Close does not know the
		// listener and the port would stay open until Serve gets to run.
		s.ln.Close()
		s.srv.Close()
		s.srv, s.ln = nil, nil
	}
	return nil
}

// set puts the server into the state a history step asks for.
func (s *server) set(mode string, vers map[string]int) error {
	s.mu.Lock()
	s.mode = mode
	for k, v := range vers {
		s.vers[k] = v
	}
	s.mu.Unlock()
	return s.listening(mode != mRefused)
}

// beginStep clears the per-step log; endStep releases blocked handlers and
// returns what was completely served during the step.
func (s *server) beginStep() {
	s.mu.Lock()
	s.served = nil
	s.mu.Unlock()
}

// The client has exited when endStep is called, but its last handler may still
// be between "body written" and "logged": wait until no handler is running so
// that every GET is attributed to the step that caused it.
func (s *server) endStep() (sv []served, foreign int, quiet bool) {
	s.mu.Lock()
	close(s.release)
	s.release = make(chan struct{})
	s.mu.Unlock()
	for i := 0; i < 5000; i++ {
		s.mu.Lock()
		n := s.active
		s.mu.Unlock()
		if n == 0 {
			quiet = true
			break
		}
		time.Sleep(time.Millisecond)
	}
	s.mu.Lock()
	sv = append(sv, s.served...)
	foreign = s.foreign
	s.mu.Unlock()
	return
}

func (s *server) close() {
	s.mu.Lock()
	close(s.release)
	s.release = make(chan struct{})
	s.mu.Unlock()
	s.listening(false)
	if s.port != 0 {
		portFree <- s.port
		s.port = 0
	}
}

func (s *server) block(r *http.Request) {
	s.mu.Lock()
	rel := s.release
	s.mu.Unlock()
	select {
	case <-rel:
	case <-r.Context().Done():
	}
}

func (s *server) handle(w http.ResponseWriter, r *http.Request) {
	s.mu.Lock()
	s.active++
	defer func() {
		s.mu.Lock()
		s.active--
		s.mu.Unlock()
	}()
	s.reqs++
	mode := s.mode
	file := ""
	if strings.HasPrefix(r.URL.Path, s.prefix+"/") {
		file = strings.TrimPrefix(r.URL.Path, s.prefix+"/")
	} else {
		s.foreign++
	}
	ver, known := s.vers[file]
	s.mu.Unlock()

	if mode == mHang {
		s.block(r)
		return
	}
	if mode == m500 {
		http.Error(w, "injected fault", http.StatusInternalServerError)
		return
	}
	if mode == m404 || !known {
		http.NotFound(w, r)
		return
	}
	body := s.content(file, ver)
	w.Header().Set("Content-Type", "text/yaml")
	w.Header().Set("Content-Length", strconv.Itoa(len(body)))
	if r.Method == http.MethodHead {
		w.WriteHeader(http.StatusOK)
		return
	}
	if r.Method != http.MethodGet {
		http.Error(w, "method", http.StatusMethodNotAllowed)
		return
	}
	switch mode {
	case mHangGet:
		s.block(r)
		return
	case mHangBody:
		w.WriteHeader(http.StatusOK)
		w.Write([]byte(body[:len(body)/2]))
		if f, ok := w.(http.Flusher); ok {
			f.Flush()
		}
		s.block(r)
		return
	}
	w.WriteHeader(http.StatusOK)
	if _, err := w.Write([]byte(body)); err != nil {
		return
	}
	if f, ok := w.(http.Flusher); ok {
		f.Flush()
	}
	s.mu.Lock()
	s.served = append(s.served, served{File: file, Ver: ver})
	s.mu.Unlock()
}
