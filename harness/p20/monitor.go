package p20

import (
	"fmt"
	"sort"
	"strconv"
	"strings"
)

// flagset is the set of remote-Taskfile related flags of one invocation.
type flagset struct {
	Yes        bool   `json:"yes,omitempty"`
	Download   bool   `json:"download,omitempty"`
	Offline    bool   `json:"offline,omitempty"`     // --offline
	OfflineEnv bool   `json:"offline_env,omitempty"` // TASK_OFFLINE=1 instead of the flag
	Insecure   bool   `json:"insecure,omitempty"`
	ClearCache bool   `json:"clear_cache,omitempty"`
	Expiry     string `json:"expiry,omitempty"`  // "", "0", "1000h"
	Timeout    string `json:"timeout,omitempty"` // "", "1s"
	// Mode is the invocation mode: "" runs the tasks; the others load the remote
	// Taskfile(s) but are read-only: "dry" (--dry), "status" (--status),
	// "list-all" (--list-all), "summary" (--summary <tasks>).
	Mode string `json:"mode,omitempty"`
}

func (f flagset) args() []string {
	a := []string{"-v"}
	if f.Insecure {
		a = append(a, "--insecure")
	}
	if f.Yes {
		a = append(a, "--yes")
	}
	if f.Download {
		a = append(a, "--download")
	}
	if f.Offline {
		a = append(a, "--offline")
	}
	if f.Expiry != "" {
		a = append(a, "--expiry", f.Expiry)
	}
	if f.Timeout != "" {
		a = append(a, "--timeout", f.Timeout)
	}
	if f.ClearCache {
		a = append(a, "--clear-cache")
	}
	if f.Mode != "" {
		a = append(a, "--"+f.Mode)
	}
	return a
}

func (f flagset) env() []string {
	if f.OfflineEnv {
		return []string{"TASK_OFFLINE=1"}
	}
	return nil
}

func (f flagset) String() string {
	s := strings.Join(f.args()[1:], " ")
	if f.OfflineEnv {
		s = "TASK_OFFLINE=1 " + s
	}
	if s == "" {
		s = "(none)"
	}
	return s
}

func (f flagset) offline() bool { return f.Offline || f.OfflineEnv }

// readOnly: the invocation loads the Taskfile but is not meant to run commands.
func (f flagset) readOnly() bool { return f.Mode != "" }

// modeTag is appended to signatures of read-only invocations only, so that the
// signatures of ordinary runs stay what they were.
func (f flagset) modeTag() string {
	if f.Mode == "" {
		return ""
	}
	return " mode=" + f.Mode
}

// cacheTag: is a cache written "now-ish" still valid under this invocation's
// expiry? Only 0 (default) and 1000h are ever used, so the answer does not
// depend on the clock.
func (f flagset) cacheTag() string {
	if f.Expiry == "1000h" {
		return "valid"
	}
	return "expired"
}

// poss is the monitor's knowledge about one remote file: the set of values the
// pair (approved checksum, cached copy) may have. Bit 0 = nothing approved and
// nothing cached; bit k = version k approved and cached. It is updated only
// from observations (markers that ran, exit status, what the server handed out
// while --yes was given).
type poss uint8

const none poss = 1

func only(v int) poss         { return 1 << uint(v) }
func (p poss) has(v int) bool { return p&(1<<uint(v)) != 0 }
func (p poss) definite() bool { return p != 0 && p&(p-1) == 0 }
func (p poss) isNone() bool   { return p == none }
func (p poss) version() int { // only for definite, non-none
	for v := 1; v < 8; v++ {
		if p == only(v) {
			return v
		}
	}
	return 0
}
func (p poss) String() string {
	var s []string
	for v := 0; v < 8; v++ {
		if p.has(v) {
			if v == 0 {
				s = append(s, "none")
			} else {
				s = append(s, "v"+strconv.Itoa(v))
			}
		}
	}
	return "{" + strings.Join(s, ",") + "}"
}

type marker struct {
	File string
	Ver  int
}

// obs is what one invocation showed at the boundary.
type obs struct {
	Exit     int      `json:"exit"`
	Trace    string   `json:"trace"`
	Served   []served `json:"served"` // GETs completely answered during the run
	Stdout   string   `json:"stdout"`
	Stderr   string   `json:"stderr"`
	TimedOut bool     `json:"watchdog,omitempty"`
	Crashed  bool     `json:"crashed,omitempty"`
	markers  []marker
	badTrace bool
	deadline bool // the CLI itself reported a fetch timeout
}

func parseTrace(tr string) (ms []marker, bad bool) {
	for _, l := range strings.Split(tr, "\n") {
		if l == "" {
			continue
		}
		i := strings.LastIndexByte(l, '=')
		if i < 0 {
			return nil, true
		}
		v, err := strconv.Atoi(l[i+1:])
		if err != nil || v < 1 || v > 7 {
			return nil, true
		}
		ms = append(ms, marker{l[:i], v})
	}
	return ms, false
}

type finding struct {
	Sig  string
	What string
}

// verdict of one step.
type verdict struct {
	Findings []finding
	Inconc   []string
	Judged   []string // which clauses had an obligation in this step
}

// monitor is the history monitor of C20.
type monitor struct {
	files []string // remote files in fetch order
	want  []string // for each task on the command line: the file whose marker it writes
	st    map[string]poss
}

func newMonitor(files, want []string) *monitor {
	m := &monitor{files: files, want: want, st: map[string]poss{}}
	for _, f := range files {
		m.st[f] = none
	}
	return m
}

func (m *monitor) stateString() string {
	var s []string
	for _, f := range m.files {
		s = append(s, f+"="+m.st[f].String())
	}
	return strings.Join(s, " ")
}

func (m *monitor) allApproved() bool {
	for _, f := range m.files {
		if !m.st[f].definite() || m.st[f].isNone() {
			return false
		}
	}
	return true
}

func (m *monitor) unknownAll() {
	for _, f := range m.files {
		m.st[f] = 0xff
	}
}

// step judges one invocation against the clauses of the statement and then
// updates the state from what was observed.
func (m *monitor) step(mode string, fl flagset, o *obs) verdict {
	var v verdict
	if o.TimedOut {
		v.Inconc = append(v.Inconc, "harness watchdog fired")
		m.unknownAll()
		return v
	}
	// A crash is judged like any other failing exit: "the cached copy ran with
	// exit 0" is not met by a panic, and a panic that ran nothing breaks no
	// safety clause. (Crashes as such are C16's business.)
	if o.badTrace {
		v.Inconc = append(v.Inconc, "unparseable trace: "+o.Trace)
		m.unknownAll()
		return v
	}
	ran := len(o.markers) > 0
	servedBy := map[string]poss{}
	for _, s := range o.Served {
		servedBy[s.File] |= only(s.Ver)
	}

	// clause 3: plain http is refused without --insecure (105, nothing runs)
	if !fl.Insecure {
		v.Judged = append(v.Judged, "105")
		if o.Exit != 105 || ran {
			v.Findings = append(v.Findings, finding{
				fmt.Sprintf("C20 | HTTP-WITHOUT-INSECURE | exit=%d ran=%v%s", o.Exit, ran, fl.modeTag()),
				fmt.Sprintf("http:// Taskfile without --insecure: exit %d (want 105), trace %q (want empty); flags: %s", o.Exit, o.Trace, fl),
			})
		}
		// safety still applies below; the state cannot legitimately change
	}

	// clause 1a: a marker of version k of file f may appear only if k is the
	// approved version (approved earlier, or handed out in this run under --yes)
	for _, mk := range o.markers {
		st, ok := m.st[mk.File]
		if !ok {
			v.Inconc = append(v.Inconc, "marker of an unknown file: "+mk.File)
			continue
		}
		allowed := st &^ none
		if fl.Yes {
			allowed |= servedBy[mk.File]
		}
		v.Judged = append(v.Judged, "safety")
		if !allowed.has(mk.Ver) {
			had := "other"
			if st.isNone() {
				had = "none"
			}
			src := "cache"
			if servedBy[mk.File].has(mk.Ver) {
				src = "fetched-now"
			}
			v.Findings = append(v.Findings, finding{
				fmt.Sprintf("C20 | RAN-UNAPPROVED | approved=%s source=%s yes=%v", had, src, fl.Yes),
				fmt.Sprintf("version %d of %s ran although the approved version is %s (served in this run: %v, --yes=%v, server %s); flags: %s", mk.Ver, mk.File, st, o.Served, fl.Yes, mode, fl),
			})
		}
	}

	// clause 1b: new or changed content fetched without approval => 104, nothing runs
	if !fl.Yes && fl.Insecure {
		need, why, had := false, "", "stale"
		for _, s := range o.Served {
			if st, ok := m.st[s.File]; ok && !st.has(s.Ver) {
				need = true
				why = fmt.Sprintf("%s v%d was fetched, approved is %s", s.File, s.Ver, st)
				if st.isNone() {
					had = "none"
				}
				break
			}
		}
		if need {
			v.Judged = append(v.Judged, "104:"+had)
			if o.Exit != 104 || ran {
				if o.deadline && !isHang(mode) {
					v.Inconc = append(v.Inconc, "fetch timed out against a healthy server (machine load): "+why)
				} else {
					v.Findings = append(v.Findings, finding{
						fmt.Sprintf("C20 | NOT-104 | exit=%d ran=%v approved=%s%s", o.Exit, ran, had, fl.modeTag()),
						fmt.Sprintf("%s, no --yes and no terminal: exit %d (want 104), trace %q (want empty); flags: %s", why, o.Exit, o.Trace, fl),
					})
				}
			}
		}
	}

	// clause 2: an approved download stays runnable from the cache when the
	// network is unavailable or --offline is given
	if fl.Insecure && !fl.ClearCache && (fl.offline() || unavailable(mode)) && m.allApproved() {
		if fl.readOnly() {
			// the statement speaks of tasks staying runnable; what a read-only
			// mode must print or return from the cache is not part of it
			v.Judged = append(v.Judged, "notjudged:readonly+unavailable")
		} else if fl.Download && !fl.offline() {
			v.Judged = append(v.Judged, "notjudged:download+unavailable")
		} else {
			cause := faultTag(mode)
			if fl.offline() {
				cause = "offline"
			}
			v.Judged = append(v.Judged, "avail:"+cause)
			var want []marker
			for _, f := range m.want {
				want = append(want, marker{f, m.st[f].version()})
			}
			if o.Exit != 0 || !sameMarkers(want, o.markers) {
				v.Findings = append(v.Findings, finding{
					fmt.Sprintf("C20 | CACHE-NOT-USED | cause=%s cache=%s exit=%d", cause, fl.cacheTag(), o.Exit),
					fmt.Sprintf("approved and cached (%s), %s: exit %d (want 0), trace %q (want %v); flags: %s", m.stateString(), cause, o.Exit, o.Trace, want, fl),
				})
			}
		}
	}

	// clause 4: --offline without a cache => 106
	if fl.Insecure && !fl.ClearCache && fl.offline() {
		for _, f := range m.files {
			st := m.st[f]
			if !st.definite() {
				break
			}
			if st.isNone() {
				v.Judged = append(v.Judged, "106")
				if o.Exit != 106 || ran {
					v.Findings = append(v.Findings, finding{
						fmt.Sprintf("C20 | OFFLINE-NO-CACHE | exit=%d ran=%v%s", o.Exit, ran, fl.modeTag()),
						fmt.Sprintf("--offline and %s was never cached: exit %d (want 106), trace %q (want empty); flags: %s", f, o.Exit, o.Trace, fl),
					})
				}
				break
			}
		}
	}

	// not a clause of the statement, but worth seeing: approved content on a healthy server
	if fl.Insecure && !fl.ClearCache && !fl.readOnly() && mode == mUp && m.allApproved() && !o.deadline {
		same := true
		for _, s := range o.Served {
			if !m.st[s.File].has(s.Ver) {
				same = false
			}
		}
		if same && (o.Exit != 0 || !ran) {
			v.Inconc = append(v.Inconc, fmt.Sprintf("approved content, healthy server, exit %d trace %q (not a clause of C20; reported for inspection); flags: %s", o.Exit, o.Trace, fl))
		}
	}

	// ---- state update, from observations only ----
	if fl.ClearCache && o.Exit == 0 {
		for _, f := range m.files {
			m.st[f] = none
		}
		return v
	}
	// A run without --yes never approves anything, whatever its mode and exit
	// status (--dry, --status, --list-all, --summary included): the state is only
	// ever widened by what was handed out under --yes, and narrowed by what ran.
	ranBy := map[string][]int{}
	for _, mk := range o.markers {
		ranBy[mk.File] = append(ranBy[mk.File], mk.Ver)
	}
	for _, f := range m.files {
		st := m.st[f]
		allowed := st &^ none
		if fl.Yes {
			// whatever was handed out while --yes was given may now be the approved version
			st |= servedBy[f]
			allowed |= servedBy[f]
		}
		if r := ranBy[f]; o.Exit == 0 && len(r) > 0 {
			sort.Ints(r)
			if r[0] == r[len(r)-1] && allowed.has(r[0]) {
				// it ran: that version is what is approved and cached now
				st = only(r[0])
			}
		}
		m.st[f] = st
	}
	return v
}

func sameMarkers(a, b []marker) bool {
	if len(a) != len(b) {
		return false
	}
	for i := range a {
		if a[i] != b[i] {
			return false
		}
	}
	return true
}

func firstLine(s string) string {
	if i := strings.IndexByte(s, '\n'); i >= 0 {
		return s[:i]
	}
	return s
}
