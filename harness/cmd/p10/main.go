// Command p10 runs the C10 check (variable and environment precedence) stand-alone.
package main

import (
	"os"
	"time"

	"github.com/go-task/task/v3/verifh/p10"
)

func main() {
	id := "C10"
	if len(os.Args) > 1 {
		id = os.Args[1]
	}
	os.Exit(p10.Run(id, time.Now()))
}
