package main

import (
	"fmt"
	"os"
	"strconv"
	"time"

	"github.com/go-task/task/v3/verifh/p16"
)

func main() {
	if len(os.Args) == 6 && os.Args[1] == "dump" { // p16 dump <dir> <from> <to> <step>
		a := func(i int) int { n, _ := strconv.Atoi(os.Args[i]); return n }
		if err := p16.Dump(os.Args[2], a(3), a(4), a(5)); err != nil {
			fmt.Fprintln(os.Stderr, err)
			os.Exit(2)
		}
		return
	}
	id := "C16"
	if len(os.Args) > 1 {
		id = os.Args[1]
	}
	os.Exit(p16.Run(id, time.Now()))
}
