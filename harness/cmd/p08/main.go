// Command p08 runs the C08 check on its own: go run ./cmd/p08 C08
package main

import (
	"os"
	"time"

	"github.com/go-task/task/v3/verifh/p08"
)

func main() {
	id := "C08"
	if len(os.Args) > 1 {
		id = os.Args[1]
	}
	os.Exit(p08.Run(id, time.Now()))
}
