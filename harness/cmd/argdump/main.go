// Command argdump records its argument vector: one JSON line
// {"argv":["<hex>",...]} (os.Args[1:], each argument hex-encoded so that any
// byte sequence survives) appended with a single O_APPEND write to the file
// named by $ARGDUMP_OUT. It prints nothing and exits 0 (3 if it cannot record).
package main

import (
	"encoding/hex"
	"encoding/json"
	"os"
)

func main() {
	out := os.Getenv("ARGDUMP_OUT")
	if out == "" {
		os.Exit(3)
	}
	argv := make([]string, 0, len(os.Args)-1)
	for _, a := range os.Args[1:] {
		argv = append(argv, hex.EncodeToString([]byte(a)))
	}
	b, err := json.Marshal(map[string]any{"argv": argv})
	if err != nil {
		os.Exit(3)
	}
	f, err := os.OpenFile(out, os.O_WRONLY|os.O_APPEND|os.O_CREATE, 0o644)
	if err != nil {
		os.Exit(3)
	}
	if _, err := f.Write(append(b, '\n')); err != nil {
		os.Exit(3)
	}
	if err := f.Close(); err != nil {
		os.Exit(3)
	}
}
