// Command p09 runs the C09 check on its own: go run ./cmd/p09 C09
package main

import (
	"os"
	"time"

	"github.com/go-task/task/v3/verifh/p09"
)

func main() {
	id := "C09"
	if len(os.Args) > 1 {
		id = os.Args[1]
	}
	os.Exit(p09.Run(id, time.Now()))
}
