package main

import (
	"os"
	"time"

	"github.com/go-task/task/v3/verifh/p15"
)

func main() {
	id := "C15"
	if len(os.Args) > 1 {
		id = os.Args[1]
	}
	os.Exit(p15.Run(id, time.Now()))
}
