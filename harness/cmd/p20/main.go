// Command p20 runs the check of property C20 (remote Taskfiles: trust and cache).
package main

import (
	"os"
	"time"

	"github.com/go-task/task/v3/verifh/p20"
)

func main() {
	id := "C20"
	if len(os.Args) > 1 {
		id = os.Args[1]
	}
	os.Exit(p20.Run(id, time.Now()))
}
