// p16child is the in-process batch child of check C16. It links /repo and
// drives the loader, the lister, the compiler and a dry run over a list of
// input directories. The journal gets "<index>:<stage>" BEFORE each call, so a
// dead child identifies the input and the entry point that killed it. It does
// not recover() anything: a panic anywhere (include readers run in their own
// goroutines) must kill the process, that is the observation.
package main

import (
	"bufio"
	"context"
	"encoding/json"
	"fmt"
	"io"
	"os"
	"path/filepath"
	"strconv"
	"sync/atomic"
	"syscall"
	"time"

	"gopkg.in/yaml.v3"

	"github.com/go-task/task/v3"
	"github.com/go-task/task/v3/args"
	"github.com/go-task/task/v3/internal/experiments"
	"github.com/go-task/task/v3/taskfile/ast"
)

type input struct {
	Dir      string   `json:"dir"`
	Requests []string `json:"requests"`
	Assigns  []string `json:"assigns"`
	Insecure bool     `json:"insecure"`
}

var journal *os.File

func note(i int, stage string) {
	fmt.Fprintf(journal, "%d:%s\n", i, stage)
}

func cpuNow() time.Duration {
	var ru syscall.Rusage
	syscall.Getrusage(syscall.RUSAGE_SELF, &ru)
	return time.Duration(ru.Utime.Nano() + ru.Stime.Nano())
}

func main() {
	if len(os.Args) < 5 {
		fmt.Fprintln(os.Stderr, "usage: p16child <manifest.jsonl> <journal> <from> <cpu-limit-seconds> [<to>]")
		os.Exit(64)
	}
	from, _ := strconv.Atoi(os.Args[3])
	cpuLimit, _ := strconv.Atoi(os.Args[4])
	to := int(^uint(0) >> 1)
	if len(os.Args) > 5 {
		to, _ = strconv.Atoi(os.Args[5])
	}
	mf, err := os.Open(os.Args[1])
	if err != nil {
		fmt.Fprintln(os.Stderr, err)
		os.Exit(64)
	}
	journal, err = os.OpenFile(os.Args[2], os.O_APPEND|os.O_CREATE|os.O_WRONLY, 0o644)
	if err != nil {
		fmt.Fprintln(os.Stderr, err)
		os.Exit(64)
	}
	devnull, _ := os.Open(os.DevNull)
	experiments.Parse(filepath.Dir(os.Args[1]))

	// CPU-time (not wall-clock) guard per input
	var cur atomic.Int64      // index of the input being processed
	var startCPU atomic.Int64 // process CPU time when it started
	go func() {
		for {
			time.Sleep(200 * time.Millisecond)
			if used := cpuNow() - time.Duration(startCPU.Load()); used > time.Duration(cpuLimit)*time.Second {
				fmt.Fprintf(journal, "%d:CPULIMIT %v\n", cur.Load(), used)
				os.Exit(96)
			}
		}
	}()

	sc := bufio.NewScanner(mf)
	sc.Buffer(make([]byte, 1<<20), 1<<26)
	i := -1
	for sc.Scan() {
		i++
		if i < from {
			continue
		}
		if i >= to {
			break
		}
		var in input
		if err := json.Unmarshal(sc.Bytes(), &in); err != nil {
			fmt.Fprintln(os.Stderr, "manifest:", err)
			os.Exit(64)
		}
		cur.Store(int64(i))
		startCPU.Store(int64(cpuNow()))
		one(i, in, devnull, startCPU.Load())
		fmt.Fprintf(journal, "%d:cpu-ms %d\n", i, cpuSince(startCPU.Load()))
	}
	fmt.Fprintf(journal, "done\n")
}

func one(i int, in input, devnull *os.File, startCPU int64) {
	entry := filepath.Join(in.Dir, "Taskfile.yml")
	note(i, "unmarshal")
	if b, err := os.ReadFile(entry); err == nil {
		var tf ast.Taskfile
		if err := yaml.Unmarshal(b, &tf); err != nil {
			_ = err.Error()
		}
	}

	note(i, "setup")
	e := task.NewExecutor(
		task.WithDir(in.Dir),
		task.WithStdin(devnull),
		task.WithStdout(io.Discard),
		task.WithStderr(io.Discard),
		task.WithDry(true),
		task.WithInsecure(in.Insecure),
		task.WithTimeout(5*time.Second),
		task.WithVersionCheck(true),
		task.WithColor(i%2 == 0),
	)
	if err := e.Setup(); err != nil {
		msg := err.Error()
		if len(msg) > 70 {
			msg = msg[:70]
		}
		note(i, "setup-error "+strconv.Quote(msg))
		return
	}
	note(i, "list")
	if _, err := e.ListTasks(task.ListOptions{ListAllTasks: true}); err != nil {
		_ = err.Error()
	}
	note(i, "list-json")
	if _, err := e.ListTasks(task.ListOptions{ListAllTasks: true, FormatTaskListAsJSON: true, NoStatus: true}); err != nil {
		_ = err.Error()
	}
	note(i, "list-names")
	_ = e.ListTaskNames(true)

	// like cmd/task: NAME=value arguments become global variables
	note(i, "assign")
	_, globals := args.Parse(in.Assigns...)
	globals.Set("CLI_ARGS", ast.Var{Value: ""})
	e.Taskfile.Vars.Merge(globals, nil)

	var names []string
	for name := range e.Taskfile.Tasks.Keys(nil) {
		names = append(names, name)
		if len(names) >= 40 {
			break
		}
	}
	names = append(names, in.Requests...)
	runs := 0
	for _, name := range names {
		note(i, "get "+strconv.Quote(name))
		t, err := e.GetTask(&task.Call{Task: name})
		if err != nil {
			_ = err.Error()
			continue
		}
		note(i, "fast-compile "+strconv.Quote(name))
		if _, err := e.FastCompiledTask(&task.Call{Task: name}); err != nil {
			_ = err.Error()
		}
		note(i, "compile "+strconv.Quote(name))
		if _, err := e.CompiledTask(&task.Call{Task: name}); err != nil {
			_ = err.Error()
		}
		if t.Watch || runs >= 12 {
			continue // a watched task never returns by design
		}
		if cpuSince(startCPU) > 6000 {
			// work budget per input (CPU time): Task's handling of call cycles costs seconds per
			// run; one such run per input is enough
			continue
		}
		runs++
		note(i, "dry-run "+strconv.Quote(name))
		ctx, cancel := context.WithTimeout(context.Background(), 20*time.Second)
		if err := e.Run(ctx, &task.Call{Task: name}); err != nil {
			_ = err.Error()
		}
		if ctx.Err() != nil {
			note(i, "dry-run-timeout "+strconv.Quote(name))
		}
		cancel()
	}
	note(i, "ok")
}

func cpuSince(start int64) int64 { return (int64(cpuNow()) - start) / 1e6 }
