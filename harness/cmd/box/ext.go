package main

// Checks implemented in their own packages.

import (
	"github.com/go-task/task/v3/verifh/p08"
	"github.com/go-task/task/v3/verifh/p09"
	"github.com/go-task/task/v3/verifh/p10"
	"github.com/go-task/task/v3/verifh/p15"
	"github.com/go-task/task/v3/verifh/p16"
	"github.com/go-task/task/v3/verifh/p19"
	"github.com/go-task/task/v3/verifh/p20"
)

func init() {
	checks["C08"] = p08.Run
	checks["C09"] = p09.Run
	checks["C10"] = p10.Run
	checks["C15"] = p15.Run
	checks["C16"] = p16.Run
	checks["C19"] = p19.Run
	checks["C20"] = p20.Run
}
