package main

// Checks implemented in their own packages.

import (
	"github.com/go-task/task/v3/verifh/p20"
)

func init() {
	checks["C20"] = p20.Run
}
