package main

// Engine E6: workloads free-running under the Go race detector (C18).

import (
	"fmt"
	"os"
	"os/exec"
	"path/filepath"
	"regexp"
	"runtime"
	"sort"
	"strconv"
	"strings"
	"sync"
	"time"

	"github.com/go-task/task/v3/verifh/h"
)

func init() { checks["C18"] = runE6 }

var raceFrameFile = regexp.MustCompile(`^\s+(/\S+\.go):\d+`)

type raceReport struct {
	text  string
	funcs [2][]string // in-scope functions of the two accesses, outermost last
	inScp [2]bool
}

// parseRaceLog splits a GORACE log into reports and extracts, for each of the two
// conflicting accesses, the frames that belong to go-task's own non-test code.
func parseRaceLog(text string) []raceReport {
	var out []raceReport
	for _, blk := range strings.Split(text, "WARNING: DATA RACE")[1:] {
		if i := strings.Index(blk, "=================="); i >= 0 {
			blk = blk[:i]
		}
		r := raceReport{text: "WARNING: DATA RACE" + blk}
		secs := strings.Split(strings.TrimSpace(blk), "\n\n")
		acc := 0
		for _, sec := range secs {
			lines := strings.Split(sec, "\n")
			head := strings.TrimSpace(lines[0])
			if !(strings.Contains(head, " at 0x") && strings.Contains(head, "by ")) {
				continue // "Goroutine N created at:" sections
			}
			if acc >= 2 {
				break
			}
			for i := 1; i+1 < len(lines); i += 2 {
				fn := strings.TrimSpace(lines[i])
				m := raceFrameFile.FindStringSubmatch(lines[i+1])
				if m == nil {
					continue
				}
				file := m[1]
				if strings.HasPrefix(file, h.RepoDir()+"/") && !strings.HasSuffix(file, "_test.go") && !strings.Contains(fn, "/verifh/") {
					if k := strings.Index(fn, "("); k > 0 && strings.HasSuffix(fn, ")") && !strings.Contains(fn[k:], ".") {
						fn = fn[:k]
					}
					fn = strings.TrimSuffix(fn, "()")
					r.funcs[acc] = append(r.funcs[acc], fn)
					r.inScp[acc] = true
				}
			}
			acc++
		}
		out = append(out, r)
	}
	return out
}

func runE6(id string, start time.Time) int {
	scratch := h.Scratch(id)
	defer os.RemoveAll(scratch)
	bin := filepath.Join(scratch, "race.test")
	args := append([]string{"test", "-race", "-c", "-tags", "verif"}, h.ModArgs()...)
	cmd := exec.Command("go", append(args, "-o", bin, "./race")...)
	cmd.Dir = filepath.Join(h.VerifDir(), "harness")
	env := []string{}
	for _, e := range h.GoEnv() {
		if !strings.HasPrefix(e, "CGO_ENABLED=") {
			env = append(env, e)
		}
	}
	cmd.Env = append(env, "CGO_ENABLED=1")
	if b, err := cmd.CombinedOutput(); err != nil {
		fmt.Fprintf(os.Stderr, "building the race harness against %s failed: %v\n%s\n", h.RepoDir(), err, b)
		return 2
	}
	nshards := runtime.NumCPU()
	if nshards > 16 {
		nshards = 16
	}
	total := h.NewPartial()
	var mu sync.Mutex
	var wg sync.WaitGroup
	logBase := filepath.Join(scratch, "race.log")
	for s := 0; s < nshards; s++ {
		wg.Add(1)
		go func(s int) {
			defer wg.Done()
			out := filepath.Join(scratch, fmt.Sprintf("shard%d.json", s))
			work := filepath.Join(scratch, fmt.Sprintf("work%d", s))
			os.MkdirAll(work, 0o755)
			c := exec.Command(bin, "-test.run", "^TestShard$", "-test.timeout", "0")
			c.Dir = work
			c.Env = append(append([]string{}, env...), "GORACE=halt_on_error=0 log_path="+logBase+" history_size=5",
				"VERIF_E6_OUT="+out, "VERIF_E6_WORK="+work, "VERIF_E6_SHARD="+strconv.Itoa(s), "VERIF_E6_NSHARDS="+strconv.Itoa(nshards))
			logf, _ := os.Create(filepath.Join(scratch, fmt.Sprintf("shard%d.out", s)))
			c.Stdout, c.Stderr = logf, logf
			done := make(chan error, 1)
			if err := c.Start(); err != nil {
				mu.Lock()
				total.Inconc("cannot start shard: " + err.Error())
				mu.Unlock()
				return
			}
			go func() { done <- c.Wait() }()
			select {
			case <-done:
			case <-time.After(time.Duration(h.Pick(15, 90)) * time.Minute):
				c.Process.Kill()
				<-done
				mu.Lock()
				total.Inconc(fmt.Sprintf("shard %d: watchdog", s))
				mu.Unlock()
			}
			logf.Close()
			q, err := h.LoadPartial(out)
			mu.Lock()
			defer mu.Unlock()
			if err != nil {
				// a -race binary exits 66 when races were reported, but only after the test function saved its partial;
				// no partial means the shard died
				if site := panicSite(h.ReadFile(filepath.Join(scratch, fmt.Sprintf("shard%d.out", s)))); site != "" {
					total.Violation("C18 | crash | "+site, "go-task crashed while running a concurrent workload", map[string]string{"crash.log": h.Truncate(h.ReadFile(filepath.Join(scratch, fmt.Sprintf("shard%d.out", s))), 20000)})
					return
				}
				total.Inconc(fmt.Sprintf("shard %d produced no result (%v): %s", s, err, h.Truncate(tailOf(filepath.Join(scratch, fmt.Sprintf("shard%d.out", s))), 800)))
				return
			}
			total.Merge(q, 30)
		}(s)
	}
	wg.Wait()
	// collect the reports
	logs, _ := filepath.Glob(logBase + ".*")
	nReports, inScope := 0, 0
	for _, lf := range logs {
		for _, r := range parseRaceLog(h.ReadFile(lf)) {
			nReports++
			if !(r.inScp[0] && r.inScp[1]) {
				total.Count("race_reports_outside_go-task_code", 1)
				continue
			}
			inScope++
			// dedup: the innermost go-task frame of each access, as an unordered pair
			a, b := r.funcs[0][0], r.funcs[1][0]
			pair := []string{shortFn(a), shortFn(b)}
			sort.Strings(pair)
			sig := fmt.Sprintf("C18 | data-race | %s <-> %s", pair[0], pair[1])
			total.Violation(sig, "the race detector reported conflicting unsynchronised accesses in "+pair[0]+" and "+pair[1],
				map[string]string{"race_report.txt": r.text})
		}
	}
	total.Count("race_reports_total", int64(nReports))
	total.Count("race_reports_in_go-task_code", int64(inScope))
	rep := h.Report{ID: id, Level: "exploration", Start: start, MinEvents: 100, EventsKey: "output_lines_observed",
		Rule: "workloads: 11 hand-written concurrent shapes (32 concurrent calls through for-deps, matrix ref rows under concurrent callers, sh: vars, once/when_changed tasks hit by 16 callers, --parallel roots with listing, group/prefixed/interleaved output with pipelines and background jobs writing to one wrapped writer, a wide include tree, dotenv/requires/defer/status under --concurrency 2) repeated under GOMAXPROCS in {2,4,16}, half of the runs with random yields at the verifhook points, plus seeded generated programs (profile race) run 3x each; all free-running in a -race binary. Oracle: any race report whose two access stacks both contain a frame of go-task's own non-test code. A case is one (workload, GOMAXPROCS, yield mode) or one generated program; all are concurrent by construction (non-trivial); distinct by that key / the program text hash.",
		Assumptions: []string{
			"the Go race detector reports only races of the executions produced; shadow-memory eviction can hide races whose accesses are far apart",
			"the harness's own writers are mutex protected",
		}}
	return h.Finish(rep, total)
}

func shortFn(fn string) string {
	return strings.TrimPrefix(fn, "github.com/go-task/task/v3")
}
