package main

// C11: a task's meaning does not depend on what else ran in the same
// invocation. Differential black-box oracle: T's observations when run alone
// (fresh process) versus T inside generated contexts.

import (
	"encoding/json"
	"fmt"
	"math/rand"
	"os"
	"path/filepath"
	"sort"
	"strings"
	"time"

	"github.com/go-task/task/v3/verifh/h"
)

func init() { checks["C11"] = runC11 }

type c11Task struct {
	Name   string
	Dir    string // "" or a sub directory
	File   int    // 0 root, 1 include "inc" (dir: incdir)
	KV     string // value of the task's env KV
	UsesX  bool
	Matrix bool
}

type c11Proj struct {
	Tasks []c11Task
	ShCmd []string // shared sh: command texts, identical across tasks
}

// render: every task observes the same set of dynamic variables, defined with
// identical sh: texts, so that only directory, environment and call variables
// can tell the evaluations apart.
func (p *c11Proj) render() map[string]string {
	files := map[string]string{}
	var root, inc strings.Builder
	root.WriteString("version: '3'\nsilent: true\nvars:\n  GLOBAL_DYN: {sh: 'printf g-$(pwd | sed s,.*/,,)'}\nenv:\n  GENV: genv\nincludes:\n  inc:\n    taskfile: ./incdir/Taskfile.yml\n    dir: ./incdir\ntasks:\n")
	inc.WriteString("version: '3'\nvars:\n  INCFILE_DYN: {sh: 'cat val.txt'}\ntasks:\n")
	for _, t := range p.Tasks {
		b := &root
		if t.File == 1 {
			b = &inc
		}
		fmt.Fprintf(b, "  %s:\n", t.Name)
		if t.Dir != "" {
			fmt.Fprintf(b, "    dir: %s\n", t.Dir)
		}
		fmt.Fprintf(b, "    env:\n      KV: '%s'\n      XE: '{{.X}}'\n", t.KV)
		b.WriteString("    vars:\n")
		b.WriteString("      HERE: {sh: 'pwd'}\n")
		b.WriteString("      FROMFILE: {sh: 'cat val.txt'}\n")
		b.WriteString("      FROMX: {sh: 'printf \"x=$X\"'}\n")
		b.WriteString("      PLAIN: 'p-{{.X}}-{{.TASK}}'\n")
		if t.Matrix {
			b.WriteString("      LIST: ['{{.X}}1', '{{.X}}2']\n")
		}
		b.WriteString("    cmds:\n")
		obs := fmt.Sprintf(`printf 'OBS %s x=%%s here=%%s file=%%s fromx=%%s plain=%%s global=%%s pwd=%%s kv=%%s xe=%%s genv=%%s\n' '{{.X}}' '{{.HERE}}' '{{.FROMFILE}}' '{{.FROMX}}' '{{.PLAIN}}' '{{.GLOBAL_DYN}}' "$(pwd)" "$KV" "$XE" "$GENV" >> "$VERIF_TRACE"`, t.Name)
		// a deferred command is templated lazily: it must see this call's values too
		dobs := fmt.Sprintf(`printf 'OBS %s x=%%s deferred=%%s-%%s\n' '{{.X}}' '{{.PLAIN}}' '{{.FROMX}}' >> "$VERIF_TRACE"`, t.Name)
		fmt.Fprintf(b, "      - defer: %s\n", yamlq(dobs))
		fmt.Fprintf(b, "      - cmd: %s\n", yamlq(obs))
		if t.Matrix {
			m := fmt.Sprintf(`printf 'OBS %s x=%%s item=%%s-%%s\n' '{{.X}}' '{{.ITEM.A}}' '{{.ITEM.B}}' >> "$VERIF_TRACE"`, t.Name)
			fmt.Fprintf(b, "      - for:\n          matrix:\n            A: {ref: .LIST}\n            B: [u, v]\n        cmd: %s\n", yamlq(m))
		}
	}
	// a wildcard task called concurrently from one for-dep with template-free vars: each call has its own MATCH
	root.WriteString("  'w-*':\n    vars:\n      M: '{{index .MATCH 0}}'\n    cmds:\n      - cmd: " + yamlq(`printf 'OBS wild x=%s mode=%s\n' '{{.M}}' '{{.MODE}}' >> "$VERIF_TRACE"`) + "\n")
	root.WriteString("  ctx-wild:\n    deps:\n      - for: [a, b, c, d, e, f, g, h]\n        task: 'w-{{.ITEM}}'\n        vars: {MODE: release}\n")
	// the same concrete wildcard name again later in the invocation, this time with call variables
	root.WriteString("  ctx-wild-again:\n    cmds:\n      - task: w-a\n      - task: w-a\n        vars: {MODE: release}\n      - for: [k, k]\n        task: w-a\n        vars: {MODE: 'loop-{{.ITEM}}'}\n      - task: w-b\n        vars: {MODE: debug}\n")
	root.WriteString("  ctx-wild-seq:\n    cmds:\n      - for: [a, b, c]\n        task: 'w-{{.ITEM}}'\n        vars: {MODE: release}\n")
	// a dotenv file rewritten by one task between two runs of another: the file system at the time of the run counts
	root.WriteString("  dotshow:\n    dotenv: ['dyn.env']\n    cmds:\n      - cmd: " + yamlq(`printf 'OBS dotshow x=%s\n' "$DV" >> "$VERIF_TRACE"`) + "\n")
	root.WriteString("  dotwrite:\n    cmds:\n      - cmd: " + yamlq(`printf 'DV=two\n' > dyn.env`) + "\n")
	root.WriteString("  ctx-dotenv:\n    cmds:\n      - task: dotshow\n      - task: dotwrite\n      - task: dotshow\n")
	// wrappers (contexts)
	names := func() []string {
		var out []string
		for _, t := range p.Tasks {
			out = append(out, p.cliName(t))
		}
		return out
	}()
	root.WriteString("  ctx-deps:\n    deps:\n")
	for _, n := range names {
		fmt.Fprintf(&root, "      - task: '%s'\n        vars: {X: one}\n", n)
	}
	root.WriteString("  ctx-seq:\n    cmds:\n")
	for _, n := range names {
		fmt.Fprintf(&root, "      - task: '%s'\n        vars: {X: one}\n", n)
	}
	root.WriteString("  ctx-seq-rev:\n    cmds:\n")
	for i := len(names) - 1; i >= 0; i-- {
		fmt.Fprintf(&root, "      - task: '%s'\n        vars: {X: one}\n", names[i])
	}
	for _, n := range names {
		id := strings.ReplaceAll(n, ":", "_")
		fmt.Fprintf(&root, "  twice-seq-%s:\n    cmds:\n      - task: '%s'\n        vars: {X: one}\n      - task: '%s'\n        vars: {X: two}\n      - task: '%s'\n        vars: {X: three}\n", id, n, n, n)
		fmt.Fprintf(&root, "  twice-par-%s:\n    deps:\n      - task: '%s'\n        vars: {X: one}\n      - task: '%s'\n        vars: {X: two}\n      - task: '%s'\n        vars: {X: three}\n", id, n, n, n)
		fmt.Fprintf(&root, "  loop-%s:\n    deps:\n      - for: [one, two, three]\n        task: '%s'\n        vars: {X: '{{.ITEM}}'}\n", id, n)
	}
	files["Taskfile.yml"] = root.String()
	files["incdir/Taskfile.yml"] = inc.String()
	files["val.txt"] = "file-root\n"
	files["dyn.env"] = "DV=one\n"
	files["incdir/val.txt"] = "file-incdir\n"
	for _, t := range p.Tasks {
		if t.Dir != "" {
			base := ""
			if t.File == 1 {
				base = "incdir/"
			}
			files[base+t.Dir+"/val.txt"] = "file-" + t.Name + "\n"
		}
	}
	return files
}

func (p *c11Proj) cliName(t c11Task) string {
	if t.File == 1 {
		return "inc:" + t.Name
	}
	return t.Name
}

func c11Generate(rng *rand.Rand) *c11Proj {
	p := &c11Proj{}
	n := 2 + rng.Intn(3)
	for i := 0; i < n; i++ {
		t := c11Task{Name: fmt.Sprintf("t%d", i), KV: fmt.Sprintf("kv%d", i), Matrix: rng.Intn(2) == 0}
		if rng.Intn(3) > 0 {
			t.Dir = fmt.Sprintf("d%d", i)
		}
		if rng.Intn(3) == 0 {
			t.File = 1
		}
		p.Tasks = append(p.Tasks, t)
	}
	return p
}

// obsOf extracts the sorted OBS lines of a task with a given X from a trace.
func obsOf(trace, task, x string) []string {
	var out []string
	for _, l := range strings.Split(trace, "\n") {
		if strings.HasPrefix(l, "OBS "+task+" x="+x+" ") {
			out = append(out, l)
		}
	}
	sort.Strings(out)
	return out
}

func runC11(id string, start time.Time) int {
	scratch := h.Scratch(id)
	defer os.RemoveAll(scratch)
	bin, err := h.BuildCLI(scratch)
	if err != nil {
		fmt.Fprintln(os.Stderr, err)
		return 2
	}
	part := h.NewPartial()
	nProj := h.Pick(40, 600)
	h.Parallel(nProj, 16, func(i int) {
		rng := h.Rng(11, int64(i))
		p := c11Generate(rng)
		dir := filepath.Join(scratch, fmt.Sprintf("p%d", i))
		os.MkdirAll(dir, 0o755)
		defer os.RemoveAll(dir)
		files := p.render()
		h.WriteTree(dir, files)
		run := func(args ...string) (h.Result, string) {
			trace := filepath.Join(dir, ".trace")
			os.Remove(trace)
			r := h.CLI{Bin: bin, Dir: dir, Args: args, Env: []string{"VERIF_TRACE=" + trace}, Timeout: 120 * time.Second}.Run()
			tr := h.ReadFile(trace)
			os.Remove(trace)
			os.RemoveAll(filepath.Join(dir, ".task"))
			part.Count("cli_runs", 1)
			return r, tr
		}
		// reference: each task alone, in a fresh process, for each X
		ref := map[string][]string{}
		okRef := true
		for _, t := range p.Tasks {
			for _, x := range []string{"one", "two", "three"} {
				r, tr := run(p.cliName(t), "X="+x)
				o := obsOf(tr, t.Name, x)
				if r.TimedOut || r.Exit != 0 || len(o) == 0 {
					part.Inconc(fmt.Sprintf("reference run of %s X=%s: exit %d timedout=%v: %s", t.Name, x, r.Exit, r.TimedOut, h.Truncate(r.Stderr, 200)))
					okRef = false
					continue
				}
				ref[t.Name+"/"+x] = o
				part.Count("observations", int64(len(o)))
			}
		}
		if !okRef {
			return
		}
		type ctx struct {
			kind string
			args []string
			xs   []string // X values each task is expected to have been called with
		}
		var names []string
		for _, t := range p.Tasks {
			names = append(names, p.cliName(t))
		}
		rev := append([]string{}, names...)
		sort.Sort(sort.Reverse(sort.StringSlice(rev)))
		ctxs := []ctx{
			{"cli-sequence", append(append([]string{}, names...), "X=one"), []string{"one"}},
			{"cli-sequence-reversed", append(append([]string{}, rev...), "X=one"), []string{"one"}},
			{"cli-parallel", append(append([]string{"--parallel"}, names...), "X=one"), []string{"one"}},
			{"deps-of-one-task", []string{"ctx-deps"}, []string{"one"}},
			{"calls-of-one-task", []string{"ctx-seq"}, []string{"one"}},
			{"calls-of-one-task-reversed", []string{"ctx-seq-rev"}, []string{"one"}},
			{"cli-sequence-conc1", append(append([]string{"--concurrency", "1"}, names...), "X=one"), []string{"one"}},
		}
		for _, n := range names {
			idn := strings.ReplaceAll(n, ":", "_")
			ctxs = append(ctxs,
				ctx{"same-task-three-values-sequential:" + n, []string{"twice-seq-" + idn}, []string{"one", "two", "three"}},
				ctx{"same-task-three-values-parallel:" + n, []string{"twice-par-" + idn}, []string{"one", "two", "three"}},
				ctx{"same-task-loop-values:" + n, []string{"loop-" + idn}, []string{"one", "two", "three"}},
			)
		}
		for _, c := range ctxs {
			r, tr := run(c.args...)
			kind := c.kind
			only := ""
			if k := strings.Index(kind, ":"); k >= 0 {
				kind, only = kind[:k], kind[k+1:]
			}
			part.Eval(h.Hash(files["Taskfile.yml"], files["incdir/Taskfile.yml"], c.kind), true)
			part.SetAdd("contexts", kind)
			if r.TimedOut {
				part.Inconc("watchdog in context " + c.kind)
				continue
			}
			if r.Exit != 0 {
				part.Violation(fmt.Sprintf("C11 | context-fails | ctx=%s", kind), fmt.Sprintf("tasks that succeed alone fail in context %s: exit %d: %s", c.kind, r.Exit, h.Truncate(r.Stderr, 300)),
					c11Witness(files, c.kind, c.args, nil, nil, tr))
				continue
			}
			for _, t := range p.Tasks {
				if only != "" && p.cliName(t) != only {
					continue
				}
				for _, x := range c.xs {
					want := ref[t.Name+"/"+x]
					got := obsOf(tr, t.Name, x)
					part.Count("comparisons", 1)
					if strings.Join(got, "\n") == strings.Join(want, "\n") {
						continue
					}
					fields := diffFields(want, got)
					part.Violation(fmt.Sprintf("C11 | differs | ctx=%s | fields=%s", kind, fields),
						fmt.Sprintf("task %s (X=%s) observes %s differently in context %q than alone", t.Name, x, fields, c.kind),
						c11Witness(files, c.kind, c.args, want, got, tr))
				}
			}
		}
		// contexts whose expectation is known by construction
		fixed := []struct {
			kind string
			args []string
			want []string
		}{
			{"wildcard-calls-from-one-for-dep", []string{"ctx-wild"}, []string{"OBS wild x=a mode=release", "OBS wild x=b mode=release", "OBS wild x=c mode=release", "OBS wild x=d mode=release", "OBS wild x=e mode=release", "OBS wild x=f mode=release", "OBS wild x=g mode=release", "OBS wild x=h mode=release"}},
			{"wildcard-calls-sequential", []string{"ctx-wild-seq"}, []string{"OBS wild x=a mode=release", "OBS wild x=b mode=release", "OBS wild x=c mode=release"}},
			{"wildcard-name-again-with-vars", []string{"ctx-wild-again"}, []string{"OBS wild x=a mode=", "OBS wild x=a mode=loop-k", "OBS wild x=a mode=loop-k", "OBS wild x=a mode=release", "OBS wild x=b mode=debug"}},
			{"wildcard-name-again-with-vars-after-a-root-call", []string{"w-a", "w-b", "ctx-wild-again"}, []string{"OBS wild x=a mode=", "OBS wild x=a mode=", "OBS wild x=a mode=loop-k", "OBS wild x=a mode=loop-k", "OBS wild x=a mode=release", "OBS wild x=b mode=", "OBS wild x=b mode=debug"}},
			{"dotenv-rewritten-between-two-runs", []string{"ctx-dotenv"}, []string{"OBS dotshow x=one", "OBS dotshow x=two"}},
		}
		for _, fc := range fixed {
			os.WriteFile(filepath.Join(dir, "dyn.env"), []byte("DV=one\n"), 0o644)
			r, tr := run(fc.args...)
			part.Eval(h.Hash(files["Taskfile.yml"], fc.kind), true)
			part.SetAdd("contexts", fc.kind)
			if r.TimedOut {
				part.Inconc("watchdog in context " + fc.kind)
				continue
			}
			var got []string
			for _, l := range strings.Split(tr, "\n") {
				if strings.HasPrefix(l, "OBS wild ") || strings.HasPrefix(l, "OBS dotshow ") {
					got = append(got, l)
				}
			}
			sort.Strings(got)
			part.Count("comparisons", 1)
			if r.Exit != 0 || strings.Join(got, "\n") != strings.Join(fc.want, "\n") {
				part.Violation(fmt.Sprintf("C11 | differs | ctx=%s", fc.kind), fmt.Sprintf("context %s: exit %d, observed %v, expected %v", fc.kind, r.Exit, got, fc.want),
					c11Witness(files, fc.kind, fc.args, fc.want, got, tr))
			}
		}
		part.Sample(map[string]any{"tasks": p.Tasks, "contexts": len(ctxs)}, 3)
	})
	rep := h.Report{ID: id, Level: "exploration", Start: start, MinEvents: 100, EventsKey: "comparisons",
		Rule:        "projects: 2-4 tasks in different dir:s (root file and an include with dir:), all defining the same dynamic variables with identical sh: texts (pwd, cat val.txt, printf \"x=$X\"), per-task env, a global sh: var, matrices whose rows are refs to lists built from the call variable. Reference = the task alone in a fresh process with the same X. Contexts: the tasks as a CLI sequence in both orders, --parallel, --concurrency 1, as deps of one task, as calls of one task in both orders, and the same task called with three values sequentially, as parallel deps and through a for-loop. Oracle: the task's OBS lines (rendered variables, pwd, env seen by the command, loop items) equal the reference. A case is one (project, context); all are non-trivial (another task or another call precedes or accompanies the task); distinct by (project text hash, context).",
		Assumptions: []string{"the reference run (task alone, fresh process) defines the task's meaning", "observations cover rendered variables, working directory, selected environment variables and loop items, not every internal attribute"}}
	return h.Finish(rep, part)
}

func diffFields(want, got []string) string {
	if len(got) == 0 {
		return "no-observation"
	}
	if len(got) != len(want) {
		return "line-count"
	}
	set := map[string]bool{}
	for i := range want {
		wf, gf := strings.Fields(want[i]), strings.Fields(got[i])
		for j := range wf {
			if j >= len(gf) || wf[j] != gf[j] {
				name := wf[j]
				if k := strings.Index(name, "="); k > 0 {
					name = name[:k]
				}
				set[name] = true
			}
		}
	}
	var ks []string
	for k := range set {
		ks = append(ks, k)
	}
	sort.Strings(ks)
	return strings.Join(ks, "+")
}

func c11Witness(files map[string]string, kind string, args, want, got []string, trace string) map[string]string {
	w := map[string]string{}
	for n, c := range files {
		w["project/"+n] = c
	}
	cj, _ := json.MarshalIndent(map[string]any{"context": kind, "args": args, "alone": want, "in_context": got, "trace": trace, "seed": h.Seed(), "tier": h.Tier()}, "", " ")
	w["case.json"] = string(cj)
	return w
}
