package main

import (
	"fmt"
	"os"
	"os/exec"
	"path/filepath"
	"runtime"
	"strconv"
	"strings"
	"sync"
	"time"

	"github.com/go-task/task/v3/verifh/h"
)

func init() {
	for _, id := range []string{"C01", "C02", "C03", "C06", "C07", "C13", "C14", "C17"} {
		checks[id] = runE1
	}
}

var e1Rules = map[string]string{
	"C01": "programs: seeded random acyclic task graphs (profile deps: fan-in/fan-out deps, for-loops on deps, nested calls, run once/when_changed deps shared by several dependents, failing commands); schedules: all maximal release orders (dfs) of programs with <= 9 probe events, plus random/pct/lifo/fifo and one starve schedule per deduplicated task, half of them with verifhook pause points as extra choice points; oracle: every newly pending command event must be enabled in the reference model (deps complete and successful). A case is one (program, schedule); non-trivial = at some quiescent state >= 2 commands were pending at once (the schedule choice mattered); distinct by (program text hash, release-order hash).",
	"C02": "programs: profile seq (nesting, for-loops over lists and matrices incl. ref rows, deferred calls, variables passed in calls); oracle: a pending B of entry k+1 while entry k (recursively: callee, its deps and defers) is incomplete, out-of-order loop items or a printed X different from the passed value is a violation. A case is one (program, schedule) execution; non-trivial = at some quiescent state >= 2 commands were pending at once, i.e. the schedule choice mattered (for the CLI part: every case); distinct by (program text hash, release-order hash).",
	"C03": "programs: profile fail (1-3 failing probes with codes from {1,2,3,7,42,126,255}, cmd/task ignore_error placements, shared once tasks); oracle: no event downstream of a released non-ignored failure may become pending (same task, callers, dependents, referrers of a shared instance), Run must return an error; with ignore_error the next command must be enabled. Exit statuses are decided by the CLI part (see coverage.cli). A case is one (program, schedule) execution; non-trivial = at some quiescent state >= 2 commands were pending at once, i.e. the schedule choice mattered (for the CLI part: every case); distinct by (program text hash, release-order hash).",
	"C06": "plus a free-running stress part: 200 deduplicated tasks x 3 simultaneous references per round on 16/8/4 procs, executions counted by name; programs: profile dedup (once and when_changed tasks referenced 2-5 times from deps, cmds, loops, through an include under two namespaces; variable values reaching only env or sub-call vars); oracle: identity-carrying probes: a duplicate B of one identity, a missing execution in a failure-free run, a referrer proceeding before the single execution's last event or after its failure is a violation. A case is one (program, schedule) execution; non-trivial = at some quiescent state >= 2 commands were pending at once, i.e. the schedule choice mattered (for the CLI part: every case); distinct by (program text hash, release-order hash).",
	"C07": "programs: two thirds profile conc (failure free; depth, fan-out <= 5, shared deps, loops), N in {1,2,3,5,unlimited}, one third profile conc-fail (failing commands and calls, ignore_error, defers, N in {1,2,3}: slots must come back on error paths; WORK is not evaluated once a failure fired); oracle at every quiescent state: pending command writes <= N (SLOT), nothing pending and Run not returned = deadlock (DEAD), pending = min(N, enabled) (WORK), at the end every expected event happened (END.missing). Cycles are decided by the CLI part (coverage.cli). A case is one (program, schedule) execution; non-trivial = at some quiescent state >= 2 commands were pending at once, i.e. the schedule choice mattered (for the CLI part: every case); distinct by (program text hash, release-order hash).",
	"C13": "programs: profile guard (platforms, requires, enum, preconditions, prompt without terminal, with/without --yes, guards on neighbours, shared tasks); oracle: a pending event of a guarded-out task is a violation, dependents/callers of a failed guard must not run, Run must return an error (platform: success and silence). Exit statuses are decided by the CLI part (coverage.cli). A case is one (program, schedule) execution; non-trivial = at some quiescent state >= 2 commands were pending at once, i.e. the schedule choice mattered (for the CLI part: every case); distinct by (program text hash, release-order hash).",
	"C17": "group: generated programs of 2-4 parallel tasks x 1-2 commands whose output is self-describing chunks (complete lines, partial lines, no trailing newline, empty output, empty lines, > 64 KiB lines, stdout and stderr, failing and succeeding commands, begin/end set or not, error_only on/off); every Write reaching the Executor's Stdout is gated in a synctest bubble and all release orders of the writes of simultaneously closing commands are enumerated (dfs, bounded per program) plus random orders; the released write sequence must parse into exactly the expected blocks, each contiguous. prefixed: 2-7 tasks x 1-3 commands free-running on 16/8/4/2 procs against a recording writer that yields randomly around every Write; every line exactly once, whole, with its task's prefix, its four writes contiguous. A case is one (program, write order); non-trivial = at least two commands' writes were pending at once (group) / lines of different tasks interleaved (prefixed); distinct by (program hash, write sequence hash).",
	"C14": "programs: profile defer (0-4 defer entries per task, commands and task calls, failing defers, failing commands at every position, nested tasks with own defers); oracle: defer events only after the task's last executed command, in reverse registration order, exactly once, before the caller's next event; rendered EXIT_CODE equals the failing command's code; at the end every certainly registered defer ran. A case is one (program, schedule) execution; non-trivial = at some quiescent state >= 2 commands were pending at once, i.e. the schedule choice mattered (for the CLI part: every case); distinct by (program text hash, release-order hash).",
}

// buildSched compiles the E1 test binary against /repo's working tree.
func buildSched(scratch string) (string, error) {
	out := filepath.Join(scratch, "sched.test")
	args := append([]string{"test", "-c", "-tags", "verif"}, h.ModArgs()...)
	cmd := exec.Command("go1.26", append(args, "-o", out, "./sched")...)
	cmd.Dir = filepath.Join(h.VerifDir(), "harness")
	cmd.Env = h.GoEnv()
	b, err := cmd.CombinedOutput()
	if err != nil {
		return "", fmt.Errorf("building E1 against %s failed: %v\n%s", h.RepoDir(), err, b)
	}
	return out, nil
}

// runShards runs the sched test binary in nshards processes and merges their partials.
func runShards(bin, scratch, prop string, extraEnv []string) (*h.Partial, error) {
	testName := "^TestShard$"
	if prop == "C17" {
		testName = "^TestShardC17$"
	}
	nshards := runtime.NumCPU()
	if nshards > 16 {
		nshards = 16
	}
	total := h.NewPartial()
	var mu sync.Mutex
	var firstErr error
	var wg sync.WaitGroup
	for s := 0; s < nshards; s++ {
		wg.Add(1)
		go func(s int) {
			defer wg.Done()
			out := filepath.Join(scratch, fmt.Sprintf("shard%d.json", s))
			prog := filepath.Join(scratch, fmt.Sprintf("shard%d.progress", s))
			work := filepath.Join(scratch, fmt.Sprintf("work%d", s))
			os.MkdirAll(work, 0o755)
			from := 0
			for attempt := 0; attempt < 400; attempt++ {
				cmd := exec.Command(bin, "-test.run", testName, "-test.timeout", "0")
				cmd.Dir = work
				cmd.Env = append(h.GoEnv(), extraEnv...)
				cmd.Env = append(cmd.Env,
					"VERIF_E1_PROP="+prop, "VERIF_E1_OUT="+out, "VERIF_E1_PROGRESS="+prog, "VERIF_E1_WORK="+work,
					"VERIF_E1_SHARD="+strconv.Itoa(s), "VERIF_E1_NSHARDS="+strconv.Itoa(nshards), "VERIF_E1_FROM="+strconv.Itoa(from))
				logf, _ := os.Create(filepath.Join(scratch, fmt.Sprintf("shard%d.log", s)))
				cmd.Stdout, cmd.Stderr = logf, logf
				if err := cmd.Start(); err != nil {
					mu.Lock()
					firstErr = err
					mu.Unlock()
					return
				}
				// watchdog: no progress for a long time => inconclusive for that case
				done := make(chan error, 1)
				go func() { done <- cmd.Wait() }()
				var err error
				stalled := false
				last, lastChange := "", time.Now()
			wait:
				for {
					select {
					case err = <-done:
						break wait
					case <-time.After(2 * time.Second):
						cur := h.ReadFile(prog)
						if cur != last {
							last, lastChange = cur, time.Now()
						} else if time.Since(lastChange) > 180*time.Second {
							stalled = true
							cmd.Process.Kill()
							err = <-done
							break wait
						}
					}
				}
				logf.Close()
				p := strings.Fields(h.ReadFile(prog))
				if err == nil && len(p) > 0 && p[0] == "done" {
					break
				}
				// the child died (deadlocked bubble => exit 3, crash, or watchdog): resume after the case it was on
				cur := from
				if len(p) > 0 {
					if n, e := strconv.Atoi(p[0]); e == nil {
						cur = n
					}
				}
				mu.Lock()
				if stalled {
					total.Inconc(fmt.Sprintf("shard %d case %d: watchdog (no progress for 180s)", s, cur))
				} else if ee, ok := err.(*exec.ExitError); ok && ee.ExitCode() == 3 {
					total.Count("child_restarts_after_deadlock", 1)
				} else {
					total.Count("child_crashes", 1)
					logText := h.ReadFile(filepath.Join(scratch, fmt.Sprintf("shard%d.log", s)))
					if site := panicSite(logText); site != "" {
						// the code under test panicked (or hit a fatal runtime error) while executing a generated program
						total.Violation(fmt.Sprintf("%s | crash | %s", prop, site), "go-task crashed while executing a generated program: "+firstLineWith(logText, "panic:", "fatal error:"),
							map[string]string{"crash.log": h.Truncate(logText, 20000), "case.json": fmt.Sprintf(`{"property": %q, "case": %d, "seed": %d, "tier": %q, "note": "re-run with bin/replay-e1 to see the program"}`, prop, cur, h.Seed(), h.Tier())})
					} else {
						total.Inconc(fmt.Sprintf("shard %d case %d: child ended unexpectedly (%v): %s", s, cur, err, h.Truncate(tailOf(filepath.Join(scratch, fmt.Sprintf("shard%d.log", s))), 600)))
					}
				}
				mu.Unlock()
				from = cur + 1
			}
			q, err := h.LoadPartial(out)
			mu.Lock()
			defer mu.Unlock()
			if err != nil {
				if firstErr == nil {
					firstErr = fmt.Errorf("shard %d produced no result: %v; log: %s", s, err, tailOf(filepath.Join(scratch, fmt.Sprintf("shard%d.log", s))))
				}
				return
			}
			total.Merge(q, 6)
		}(s)
	}
	wg.Wait()
	return total, firstErr
}

// panicSite returns the innermost go-task (non-harness) function of a Go crash dump, or "".
func panicSite(log string) string {
	i := strings.Index(log, "panic:")
	if j := strings.Index(log, "fatal error:"); j >= 0 && (i < 0 || j < i) {
		i = j
	}
	if i < 0 {
		return ""
	}
	for _, l := range strings.Split(log[i:], "\n") {
		l = strings.TrimSpace(l)
		if strings.HasPrefix(l, "github.com/go-task/task/v3") && !strings.Contains(l, "/verifh/") && !strings.Contains(l, "verifhook") {
			if k := strings.LastIndex(l, "("); k > 0 {
				l = l[:k]
			}
			return strings.TrimPrefix(l, "github.com/go-task/task/v3")
		}
	}
	return "outside go-task frames"
}

func firstLineWith(text string, needles ...string) string {
	for _, l := range strings.Split(text, "\n") {
		for _, n := range needles {
			if strings.Contains(l, n) {
				return h.Truncate(strings.TrimSpace(l), 300)
			}
		}
	}
	return ""
}

func tailOf(path string) string {
	s := h.ReadFile(path)
	if len(s) > 1500 {
		s = s[len(s)-1500:]
	}
	return s
}

func runE1(id string, start time.Time) int {
	scratch := h.Scratch(id)
	defer os.RemoveAll(scratch)
	bin, err := buildSched(scratch)
	if err != nil {
		fmt.Fprintln(os.Stderr, err)
		return 2
	}
	var extraEnv []string
	if id == "C06" {
		// process environment variables named like the call variables of the generated programs: call
		// variables outrank the environment, so nothing may change (an identity that drops "variables the
		// environment also has" would)
		extraEnv = []string{"X=from-process-env", "Y=from-process-env"}
	}
	part, err := runShards(bin, scratch, id, extraEnv)
	if err != nil {
		fmt.Fprintln(os.Stderr, err)
		return 2
	}
	if id == "C06" {
		// free-running stress part (one process, all cores)
		sout := filepath.Join(scratch, "stress.json")
		cmd := exec.Command(bin, "-test.run", "^TestC06Stress$", "-test.timeout", "0")
		cmd.Dir = scratch
		cmd.Env = append(h.GoEnv(), "VERIF_E1_PROP=C06STRESS", "VERIF_E1_OUT="+sout, "VERIF_E1_WORK="+scratch)
		if b, err := cmd.CombinedOutput(); err != nil {
			part.Inconc("stress part ended unexpectedly: " + h.Truncate(string(b), 500))
		} else if q, err := h.LoadPartial(sout); err == nil {
			part.Merge(q, 6)
		}
	}
	extra := map[string]any{}
	if f, ok := cliParts[id]; ok {
		cliPart := f(scratch, part)
		extra["cli"] = cliPart
	}
	eventsKey := "events_observed"
	if id == "C17" {
		eventsKey = "writes_observed"
	}
	rep := h.Report{ID: id, Level: "exploration", Rule: e1Rules[id], Start: start, Extra: extra,
		MinEvents: 200, EventsKey: eventsKey,
		Assumptions: []string{
			"the reference semantics in harness/gen/model.go states the documented behaviour correctly",
			"interleavings finer than one gated Write / one verifhook pause point are sampled by the Go scheduler, not enumerated",
			"testing/synctest reports quiescence exactly (every bubble goroutine durably blocked)",
		}}
	return h.Finish(rep, part)
}

// cliParts are optional black-box CLI additions to an E1 check (exit codes, cycles).
var cliParts = map[string]func(scratch string, part *h.Partial) map[string]any{}
