// Command box is the single entry point of the verification harness:
//
//	box <property-id>      (tier and seed from VERIF_TIER / VERIF_SEED)
//
// It rebuilds what the check needs from /repo's working tree, runs the
// engine(s) serving the property, applies known findings, writes the evidence
// file and prints the verdict lines.
package main

import (
	"fmt"
	"os"
	"time"

	"github.com/go-task/task/v3/verifh/h"
)

type checkFunc func(id string, start time.Time) int

var checks = map[string]checkFunc{}

func main() {
	if len(os.Args) < 2 {
		fmt.Fprintln(os.Stderr, "usage: box <property-id>")
		os.Exit(2)
	}
	id := os.Args[1]
	f, ok := checks[id]
	if !ok {
		fmt.Fprintf(os.Stderr, "box: no check registered for %q\n", id)
		os.Exit(2)
	}
	_ = h.Seed()
	os.Exit(f(id, time.Now()))
}
