package main

// Black-box CLI additions to the E1 checks: exit statuses (C03, C13) and
// cyclic Taskfiles under CPU/memory limits (C07).

import (
	"encoding/json"
	"fmt"
	"os"
	"path/filepath"
	"runtime"
	"strings"
	"time"

	"github.com/go-task/task/v3/verifh/h"
)

func init() {
	cliParts["C03"] = cliC03
	cliParts["C07"] = cliC07
	cliParts["C13"] = cliC13
}

type cliCase struct {
	name      string
	files     map[string]string
	args      []string
	env       []string
	wantExit  []int    // acceptable exit statuses
	mustRun   []string // trace lines that must be present
	mustNot   []string // trace lines that must be absent
	sig       string
	prep      [][]string // invocations run first in the same directory (their outcome is not judged), e.g. to build state
	prepRm    []string   // files removed after prep, before the judged invocation
	prepTouch []string   // files created before prep
	limits    bool       // run under ulimit -v / -t
	hang      bool       // decide a hang from the process state (h.CLI.HangDetect): the case uses no timers
	quiet     bool       // stdout and stderr must be free of task-specific complaints (platform skip)
}

func probe(s string) string {
	return yamlq(fmt.Sprintf(`printf '%s\n' >> "$VERIF_TRACE"`, s))
}

func runCliCases(id, scratch, bin string, cases []cliCase, part *h.Partial) map[string]any {
	h.Parallel(len(cases), 16, func(i int) {
		c := cases[i]
		dir := filepath.Join(scratch, fmt.Sprintf("cli%d", i))
		os.MkdirAll(dir, 0o755)
		defer os.RemoveAll(dir)
		h.WriteTree(dir, c.files)
		trace := filepath.Join(dir, ".trace")
		for _, f := range c.prepTouch {
			os.WriteFile(filepath.Join(dir, f), []byte("x\n"), 0o644)
		}
		for _, pa := range c.prep {
			h.CLI{Bin: bin, Dir: dir, Args: pa, Env: []string{"VERIF_TRACE=" + trace + ".prep"}, Timeout: 120 * time.Second}.Run()
		}
		for _, f := range c.prepRm {
			os.Remove(filepath.Join(dir, f))
		}
		cli := h.CLI{Bin: bin, Dir: dir, Args: c.args, Env: append([]string{"VERIF_TRACE=" + trace}, c.env...), Timeout: 300 * time.Second}
		if c.limits {
			// 4 GiB of address space, 120 s of CPU
			cli.Bin = "/bin/sh"
			cli.Args = append([]string{"-c", `ulimit -v 4194304; ulimit -t 120; exec "$0" "$@"`, bin}, c.args...)
		}
		cli.HangDetect = c.hang
		r := cli.Run()
		tr := h.ReadFile(trace)
		part.Count("cli_runs", 1)
		part.SetAdd("cli_cases", c.sig)
		part.Count("cli_trace_lines", int64(strings.Count(tr, "\n")))
		if r.TimedOut {
			part.Inconc("cli watchdog: " + c.name)
			return
		}
		var problems []string
		okExit := false
		for _, w := range c.wantExit {
			if r.Exit == w {
				okExit = true
			}
		}
		sigExtra := ""
		if r.Hung {
			problems = append(problems, "hung: the process sat with every thread asleep, no child process and no CPU use for 20 consecutive samples (goroutine dump in stderr)")
			sigExtra = "hang"
		} else if r.Crashed() {
			problems = append(problems, "crashed: "+h.Truncate(r.Stderr, 300))
			sigExtra = "crash"
		} else if !okExit {
			problems = append(problems, fmt.Sprintf("exit status %d (signal %q), want one of %v", r.Exit, r.Signal, c.wantExit))
			sigExtra = fmt.Sprintf("exit=%d", r.Exit)
		}
		lines := map[string]bool{}
		for _, l := range strings.Split(tr, "\n") {
			lines[l] = true
		}
		for _, m := range c.mustRun {
			if !lines[m] {
				problems = append(problems, "command did not run: "+m)
				if sigExtra == "" {
					sigExtra = "missing-command"
				}
			}
		}
		for _, m := range c.mustNot {
			if lines[m] {
				problems = append(problems, "command ran: "+m)
				if sigExtra == "" {
					sigExtra = "forbidden-command-ran"
				}
			}
		}
		if c.limits && r.CPU > 100*time.Second {
			problems = append(problems, fmt.Sprintf("used %v of CPU", r.CPU))
			sigExtra = "cpu"
		}
		if len(problems) == 0 {
			return
		}
		cj, _ := json.MarshalIndent(map[string]any{"case": c.name, "args": c.args, "env": c.env, "want_exit": c.wantExit, "exit": r.Exit, "signal": r.Signal,
			"trace": tr, "stdout": h.Truncate(r.Stdout, 2000), "stderr": h.Truncate(r.Stderr, 4000), "problems": problems, "cpu_s": r.CPU.Seconds()}, "", " ")
		w := map[string]string{"case.json": string(cj)}
		for n, f := range c.files {
			w["project/"+n] = f
		}
		part.Violation(fmt.Sprintf("%s | cli | %s | %s", id, c.sig, sigExtra), c.name+": "+strings.Join(problems, "; "), w)
	})
	return map[string]any{"cli_cases": len(cases)}
}

// ---- C03: exit statuses of failing commands ----------------------------------

func cliC03(scratch string, part *h.Partial) map[string]any {
	bin, err := h.BuildCLI(scratch)
	if err != nil {
		part.Violation("C03 | cli | build", err.Error(), nil)
		return nil
	}
	var cases []cliCase
	codes := []int{1, 2, 7, 126, 255}
	if h.Thorough() {
		codes = nil
		for c := 1; c <= 255; c++ {
			codes = append(codes, c)
		}
	}
	type pos struct {
		name string
		tf   func(code int) string
		pre  []string // must run
		post []string // must not run
	}
	hdr := "version: '3'\nsilent: true\ntasks:\n"
	failCmd := func(code int) string { return yamlq(fmt.Sprintf(`printf 'F\n' >> "$VERIF_TRACE"; exit %d`, code)) }
	positions := []pos{
		{"direct", func(c int) string {
			return hdr + "  root:\n    cmds:\n      - " + probe("pre") + "\n      - " + failCmd(c) + "\n      - " + probe("post") + "\n"
		}, []string{"pre", "F"}, []string{"post"}},
		{"call-depth1", func(c int) string {
			return hdr + "  root:\n    cmds:\n      - " + probe("pre") + "\n      - task: t1\n      - " + probe("post") + "\n" +
				"  t1:\n    cmds:\n      - " + failCmd(c) + "\n      - " + probe("post1") + "\n"
		}, []string{"pre", "F"}, []string{"post", "post1"}},
		{"call-depth3", func(c int) string {
			return hdr + "  root:\n    cmds:\n      - task: t1\n      - " + probe("post") + "\n" +
				"  t1:\n    cmds:\n      - task: t2\n      - " + probe("post1") + "\n" +
				"  t2:\n    cmds:\n      - task: t3\n      - " + probe("post2") + "\n" +
				"  t3:\n    cmds:\n      - " + failCmd(c) + "\n      - " + probe("post3") + "\n"
		}, []string{"F"}, []string{"post", "post1", "post2", "post3"}},
		{"dep", func(c int) string {
			return hdr + "  root:\n    deps: [d1]\n    cmds:\n      - " + probe("post") + "\n" +
				"  d1:\n    cmds:\n      - " + failCmd(c) + "\n      - " + probe("post1") + "\n"
		}, []string{"F"}, []string{"post", "post1"}},
		{"dep-of-dep", func(c int) string {
			return hdr + "  root:\n    deps: [d1]\n    cmds:\n      - " + probe("post") + "\n" +
				"  d1:\n    deps: [d2]\n    cmds:\n      - " + probe("post1") + "\n" +
				"  d2:\n    cmds:\n      - " + failCmd(c) + "\n"
		}, []string{"F"}, []string{"post", "post1"}},
		{"dep-inside-call", func(c int) string {
			return hdr + "  root:\n    cmds:\n      - task: t1\n      - " + probe("post") + "\n" +
				"  t1:\n    deps: [d2]\n    cmds:\n      - " + probe("post1") + "\n" +
				"  d2:\n    cmds:\n      - " + failCmd(c) + "\n"
		}, []string{"F"}, []string{"post", "post1"}},
		{"shared-once-by-dep-and-call", func(c int) string {
			return hdr + "  root:\n    cmds:\n      - task: a\n      - " + probe("post") + "\n" +
				"  a:\n    deps: [s]\n    cmds:\n      - task: s\n      - " + probe("posta") + "\n" +
				"  s:\n    run: once\n    cmds:\n      - " + failCmd(c) + "\n"
		}, []string{"F"}, []string{"post", "posta"}},
		{"unrelated-task-ignore_error", func(c int) string {
			return hdr + "  root:\n    cmds:\n      - task: other\n      - " + failCmd(c) + "\n      - " + probe("post") + "\n" +
				"  other:\n    ignore_error: true\n    cmds:\n      - " + probe("other") + "\n"
		}, []string{"other", "F"}, []string{"post"}},
		{"other-command-ignore_error", func(c int) string {
			return hdr + "  root:\n    cmds:\n      - cmd: " + yamlq(`printf 'ign\n' >> "$VERIF_TRACE"; exit 9`) + "\n        ignore_error: true\n      - " + failCmd(c) + "\n      - " + probe("post") + "\n"
		}, []string{"ign", "F"}, []string{"post"}},
	}
	for _, p := range positions {
		for _, code := range codes {
			for _, x := range []bool{false, true} {
				want := 201
				args := []string{"root"}
				if x {
					want = code
					args = []string{"-x", "root"}
				}
				cases = append(cases, cliCase{name: fmt.Sprintf("%s code=%d -x=%v", p.name, code, x), files: map[string]string{"Taskfile.yml": p.tf(code)}, args: args,
					wantExit: []int{want}, mustRun: p.pre, mustNot: p.post, sig: fmt.Sprintf("pos=%s x=%v", p.name, x)})
			}
		}
	}
	// --parallel: the status is the failing command's, wherever the failing task is listed
	busy := yamlq(`i=0; while [ $i -lt 3000 ]; do i=$((i+1)); done; printf 'busy-done\n' >> "$VERIF_TRACE"`)
	for _, code := range codes {
		for _, order := range [][]string{{"slow", "failing"}, {"failing", "slow"}, {"slow", "slow2", "failing"}} {
			tf := hdr + "  slow:\n    cmds:\n      - " + busy + "\n  slow2:\n    cmds:\n      - " + busy + "\n  failing:\n    cmds:\n      - " + failCmd(code) + "\n"
			cases = append(cases,
				cliCase{name: fmt.Sprintf("parallel %v code=%d -x", order, code), files: map[string]string{"Taskfile.yml": tf}, args: append([]string{"--parallel", "-x"}, order...),
					wantExit: []int{code}, mustRun: []string{"F"}, sig: fmt.Sprintf("pos=parallel-roots x=true failing-listed-%d-of-%d", indexOf(order, "failing")+1, len(order))},
				cliCase{name: fmt.Sprintf("parallel %v code=%d", order, code), files: map[string]string{"Taskfile.yml": tf}, args: append([]string{"--parallel"}, order...),
					wantExit: []int{201}, mustRun: []string{"F"}, sig: fmt.Sprintf("pos=parallel-roots x=false failing-listed-%d-of-%d", indexOf(order, "failing")+1, len(order))})
		}
		// a dep failing while a sibling dep is busy: still the task-run status / the command's code
		tf := hdr + "  root:\n    deps: [slow, failing]\n    cmds:\n      - " + probe("post") + "\n  slow:\n    cmds:\n      - " + busy + "\n  failing:\n    cmds:\n      - " + failCmd(code) + "\n"
		cases = append(cases,
			cliCase{name: fmt.Sprintf("dep fails next to a busy sibling code=%d -x", code), files: map[string]string{"Taskfile.yml": tf}, args: []string{"-x", "root"}, wantExit: []int{code}, mustRun: []string{"F"}, mustNot: []string{"post"}, sig: "pos=dep-busy-sibling x=true"},
			cliCase{name: fmt.Sprintf("dep fails next to a busy sibling code=%d", code), files: map[string]string{"Taskfile.yml": tf}, args: []string{"root"}, wantExit: []int{201}, mustRun: []string{"F"}, mustNot: []string{"post"}, sig: "pos=dep-busy-sibling x=false"})
	}
	// --parallel with TWO tasks that fail on their own (the first is held back by a deferred command until the second
	// has failed too, so neither is merely cancelled): the status is still the task-run class / one of the two codes
	for _, code := range codes {
		other := code%200 + 20
		hold := yamlq(`i=0; while [ ! -f second.failed ] && [ $i -lt 300000 ]; do i=$((i+1)); done`)
		tf := hdr + "  first:\n    cmds:\n      - defer: " + hold + "\n      - " + yamlq(fmt.Sprintf(`printf 'F\n' >> "$VERIF_TRACE"; : > first.failing; exit %d`, code)) + "\n" +
			"  second:\n    cmds:\n      - " + yamlq(fmt.Sprintf(`i=0; while [ ! -f first.failing ] && [ $i -lt 300000 ]; do i=$((i+1)); done; printf 'F2\n' >> "$VERIF_TRACE"; : > second.failed; exit %d`, other)) + "\n"
		cases = append(cases,
			cliCase{name: fmt.Sprintf("parallel two genuine failures code=%d", code), files: map[string]string{"Taskfile.yml": tf}, args: []string{"--parallel", "first", "second"},
				wantExit: []int{201}, mustRun: []string{"F", "F2"}, sig: "pos=parallel-two-failures x=false"},
			cliCase{name: fmt.Sprintf("parallel two genuine failures code=%d -x", code), files: map[string]string{"Taskfile.yml": tf}, args: []string{"--parallel", "-x", "first", "second"},
				wantExit: []int{code, other}, mustRun: []string{"F", "F2"}, sig: "pos=parallel-two-failures x=true"})
	}
	// ignore_error suppresses exactly that command / that task's own commands and leaves the status alone
	for _, code := range codes {
		tf := hdr + "  root:\n    cmds:\n      - cmd: " + yamlq(fmt.Sprintf(`printf 'F\n' >> "$VERIF_TRACE"; exit %d`, code)) + "\n        ignore_error: true\n      - " + probe("post") + "\n"
		cases = append(cases, cliCase{name: fmt.Sprintf("ignore-cmd code=%d", code), files: map[string]string{"Taskfile.yml": tf}, args: []string{"root"},
			wantExit: []int{0}, mustRun: []string{"F", "post"}, sig: "ignore=cmd"})
		tf = hdr + "  root:\n    ignore_error: true\n    cmds:\n      - " + failCmd(code) + "\n      - " + probe("post") + "\n      - " + failCmd(code) + "\n      - " + probe("post2") + "\n"
		cases = append(cases, cliCase{name: fmt.Sprintf("ignore-task code=%d", code), files: map[string]string{"Taskfile.yml": tf}, args: []string{"-x", "root"},
			wantExit: []int{0}, mustRun: []string{"F", "post", "post2"}, sig: "ignore=task"})
		tf = hdr + "  root:\n    deps: [d]\n    cmds:\n      - " + probe("post") + "\n  d:\n    ignore_error: true\n    cmds:\n      - " + failCmd(code) + "\n      - " + probe("postd") + "\n"
		cases = append(cases, cliCase{name: fmt.Sprintf("ignore-task-in-dep code=%d", code), files: map[string]string{"Taskfile.yml": tf}, args: []string{"root"},
			wantExit: []int{0}, mustRun: []string{"F", "postd", "post"}, sig: "ignore=task-dep"})
	}
	return runCliCases("C03", scratch, bin, cases, part)
}

// ---- C07: cyclic task references ---------------------------------------------

func cliC07(scratch string, part *h.Partial) map[string]any {
	bin, err := h.BuildCLI(scratch)
	if err != nil {
		part.Violation("C07 | cli | build", err.Error(), nil)
		return nil
	}
	hdr := "version: '3'\nsilent: true\ntasks:\n"
	var cases []cliCase
	add := func(name, body string, args ...string) {
		if len(args) == 0 {
			args = []string{"a"}
		}
		for _, conc := range []string{"", "1"} {
			a := append([]string{}, args...)
			if conc != "" {
				a = append([]string{"--concurrency", conc}, a...)
			}
			cases = append(cases, cliCase{name: name + " C=" + conc, files: map[string]string{"Taskfile.yml": hdr + body}, args: a,
				wantExit: []int{204, 201}, sig: "cycle=" + name, limits: true, hang: true})
		}
	}
	add("self-dep", "  a:\n    deps: [a]\n")
	add("self-call", "  a:\n    cmds:\n      - task: a\n")
	add("two-deps", "  a:\n    deps: [b]\n  b:\n    deps: [a]\n")
	add("three-deps", "  a:\n    deps: [b]\n  b:\n    deps: [c]\n  c:\n    deps: [a]\n")
	add("two-calls", "  a:\n    cmds:\n      - task: b\n  b:\n    cmds:\n      - task: a\n")
	add("three-calls", "  a:\n    cmds:\n      - task: b\n  b:\n    cmds:\n      - task: c\n  c:\n    cmds:\n      - task: a\n")
	add("mixed", "  a:\n    deps: [b]\n  b:\n    cmds:\n      - task: a\n")
	add("fanout2-deps", "  a:\n    deps: [b, b]\n  b:\n    deps: [a, a]\n")
	add("fanout2-calls", "  a:\n    cmds:\n      - task: b\n      - task: b\n  b:\n    cmds:\n      - task: a\n      - task: a\n")
	add("fanout3-self", "  a:\n    deps: [a, a, a]\n")
	add("cycle-behind-probe", "  a:\n    cmds:\n      - "+probe("x")+"\n      - task: b\n  b:\n    deps: [a]\n")
	add("for-loop-self", "  a:\n    cmds:\n      - for: [1, 2]\n        task: a\n")
	add("once-mutual-deps", "  a:\n    run: once\n    deps: [b]\n  b:\n    run: once\n    deps: [a]\n")
	add("once-mutual-calls", "  a:\n    run: once\n    cmds:\n      - task: b\n  b:\n    run: once\n    cmds:\n      - task: a\n")
	add("once-three-cycle", "  a:\n    deps: [x]\n  x:\n    run: once\n    deps: [y]\n  y:\n    run: when_changed\n    cmds:\n      - task: z\n  z:\n    run: once\n    deps: [x]\n")
	add("once-cross-wait", "  a:\n    deps: [x, y]\n  x:\n    run: once\n    deps: [y]\n  y:\n    run: once\n    deps: [x]\n")
	add("once-self-dep", "  a:\n    deps: [b]\n  b:\n    run: once\n    deps: [b]\n")
	add("alias-cycle", "  a:\n    aliases: [x]\n    deps: [y]\n  b:\n    aliases: [y]\n    deps: [x]\n")
	add("alias-call-cycle", "  a:\n    aliases: [x]\n    cmds:\n      - task: y\n  b:\n    aliases: [y]\n    cmds:\n      - task: x\n")
	// the task that closes the cycle also has an unrelated deduplicated dependency that finishes first (the record of
	// who waits for whom must survive the return of that other call); the back reference comes after a command
	busy := yamlq(`i=0; while [ $i -lt 2000 ]; do i=$((i+1)); done`)
	for _, mode := range []string{"once", "when_changed"} {
		top := "version: '3'\nsilent: true\nrun: " + mode + "\ntasks:\n"
		for name, body := range map[string]string{
			"sibling-first-deps":  "  a:\n    deps: [quick, b]\n  quick:\n    cmds:\n      - " + probe("q") + "\n  b:\n    cmds:\n      - " + busy + "\n      - task: a\n",
			"sibling-first-calls": "  a:\n    cmds:\n      - task: quick\n      - task: b\n  quick:\n    cmds:\n      - " + probe("q") + "\n  b:\n    cmds:\n      - task: quick\n      - " + busy + "\n      - task: a\n",
			"sibling-first-three": "  a:\n    deps: [quick, b]\n  quick:\n    cmds:\n      - " + probe("q") + "\n  b:\n    deps: [quick]\n    cmds:\n      - " + busy + "\n      - task: c\n  c:\n    deps: [quick]\n    cmds:\n      - " + busy + "\n      - task: a\n",
		} {
			for _, conc := range []string{"", "2"} {
				args := []string{"a"}
				if conc != "" {
					args = []string{"--concurrency", conc, "a"}
				}
				cases = append(cases, cliCase{name: name + " run=" + mode + " C=" + conc, files: map[string]string{"Taskfile.yml": top + body}, args: args,
					wantExit: []int{204, 201}, sig: "cycle=" + name + "/" + mode, limits: true, hang: true})
			}
		}
	}
	// cycles through a deferred task call: the failure of a deferred command is ignored by definition (C14), so the
	// invocation may end with 0; what C07 demands here is that it ends
	for _, mode := range []string{"once", "when_changed", "always"} {
		top := "version: '3'\nsilent: true\nrun: " + mode + "\ntasks:\n"
		for name, body := range map[string]string{
			"defer-mutual": "  a:\n    cmds:\n      - defer: {task: b}\n      - " + probe("a") + "\n  b:\n    cmds:\n      - task: a\n",
			"defer-self":   "  a:\n    cmds:\n      - defer: {task: a}\n      - " + probe("a") + "\n",
			"defer-dep":    "  a:\n    cmds:\n      - defer: {task: b}\n      - " + probe("a") + "\n  b:\n    deps: [a]\n",
		} {
			cases = append(cases, cliCase{name: name + " run=" + mode, files: map[string]string{"Taskfile.yml": top + body}, args: []string{"a"},
				wantExit: []int{0, 201, 204}, mustRun: []string{"a"}, sig: "cycle=" + name + "/" + mode, limits: true, hang: true})
		}
	}
	add("wildcard-cycle", "  a:\n    deps: ['w-1']\n  'w-*':\n    deps: ['w-{{index .MATCH 0}}']\n")
	return runCliCases("C07", scratch, bin, cases, part)
}

// ---- C13: exit statuses of guards --------------------------------------------

func cliC13(scratch string, part *h.Partial) map[string]any {
	bin, err := h.BuildCLI(scratch)
	if err != nil {
		part.Violation("C13 | cli | build", err.Error(), nil)
		return nil
	}
	hdr := "version: '3'\nsilent: true\ntasks:\n"
	type guard struct {
		name string
		yaml string   // lines added to the guarded task
		vars string   // vars passed by the caller (YAML flow mapping) or ""
		cli  []string // NAME=value for the root-call position
		code int      // documented status when reached as root call or through deps
		flag []string // extra CLI flags
	}
	guards := []guard{
		{"platform-excluded", "    platforms: [windows]\n", "", nil, 0, nil},
		{"platform-arch-excluded", "    platforms: [linux/" + otherArch() + "]\n", "", nil, 0, nil},
		{"requires-missing", "    requires:\n      vars: [RQ]\n", "", nil, 206, nil},
		{"requires-two-one-missing", "    requires:\n      vars: [RQ, RQ2]\n", "{RQ: x}", []string{"RQ=x"}, 206, nil},
		{"enum-mismatch", "    requires:\n      vars:\n        - name: RQ\n          enum: [good, fine]\n", "{RQ: bad}", []string{"RQ=bad"}, 207, nil},
		{"precondition-false", "    preconditions:\n      - sh: 'test 1 = 2'\n        msg: nope\n", "", nil, -1, nil},
		{"precondition-second-false", "    preconditions:\n      - 'test 1 = 1'\n      - 'test 1 = 2'\n", "", nil, -1, nil},
		{"prompt-no-terminal", "    prompt: 'go on?'\n", "", nil, 205, nil},
		{"prompt-two-no-terminal", "    prompt: ['first?', 'second?']\n", "", nil, 205, nil},
	}
	passing := []guard{
		{"platform-ok", "    platforms: [linux]\n", "", nil, 0, nil},
		{"requires-ok", "    requires:\n      vars: [RQ]\n", "{RQ: x}", []string{"RQ=x"}, 0, nil},
		{"enum-ok", "    requires:\n      vars:\n        - name: RQ\n          enum: [good, fine]\n", "{RQ: fine}", []string{"RQ=fine"}, 0, nil},
		{"precondition-ok", "    preconditions:\n      - 'test 1 = 1'\n", "", nil, 0, nil},
		{"prompt-yes", "    prompt: 'go on?'\n", "", nil, 0, []string{"--yes"}},
	}
	var cases []cliCase
	guardedBody := func(g guard) string {
		return "  guarded:\n" + g.yaml + "    cmds:\n      - " + probe("G1") + "\n      - " + probe("G2") + "\n"
	}
	callVars := func(g guard) string {
		if g.vars == "" {
			return ""
		}
		return "        vars: " + g.vars + "\n"
	}
	for _, set := range []struct {
		gs   []guard
		fail bool
	}{{guards, true}, {passing, false}} {
		for _, g := range set.gs {
			skip := strings.HasPrefix(g.name, "platform-") && set.fail
			// exit statuses
			var wantRoot, wantDep, wantCall []int
			mustNotG := []string{"G1", "G2"}
			var mustG []string
			switch {
			case !set.fail:
				wantRoot, wantDep, wantCall = []int{0}, []int{0}, []int{0}
				mustNotG, mustG = nil, []string{"G1", "G2"}
			case skip:
				wantRoot, wantDep, wantCall = []int{0}, []int{0}, []int{0}
			case g.code == -1:
				nz := nonZero()
				wantRoot, wantDep, wantCall = nz, nz, nz
			default:
				wantRoot, wantDep = []int{g.code}, []int{g.code}
				wantCall = nonZero()
			}
			after := func(fail bool) ([]string, []string) {
				// the caller's later command runs iff the guarded task did not fail
				if fail && !skip {
					return nil, []string{"after"}
				}
				return []string{"after"}, nil
			}
			// position: root call
			args := append(append([]string{}, g.flag...), "guarded")
			args = append(args, g.cli...)
			cases = append(cases, cliCase{name: g.name + " @root", files: map[string]string{"Taskfile.yml": hdr + guardedBody(g)}, args: args,
				wantExit: wantRoot, mustRun: mustG, mustNot: mustNotG, sig: "guard=" + g.name + " pos=root"})
			// position: dep
			mr, mn := after(set.fail)
			tf := hdr + "  top:\n    deps:\n      - task: guarded\n" + callVars(g) + "    cmds:\n      - " + probe("after") + "\n" + guardedBody(g)
			cases = append(cases, cliCase{name: g.name + " @dep", files: map[string]string{"Taskfile.yml": tf}, args: append(append([]string{}, g.flag...), "top"),
				wantExit: wantDep, mustRun: append(append([]string{}, mustG...), mr...), mustNot: append(append([]string{}, mustNotG...), mn...), sig: "guard=" + g.name + " pos=dep"})
			// position: dep next to a sibling dep
			tf = hdr + "  top:\n    deps:\n      - task: guarded\n" + callVars(g) + "      - task: sib\n    cmds:\n      - " + probe("after") + "\n  sib:\n    cmds:\n      - " + probe("sib") + "\n" + guardedBody(g)
			cases = append(cases, cliCase{name: g.name + " @dep+sibling", files: map[string]string{"Taskfile.yml": tf}, args: append(append([]string{}, g.flag...), "top"),
				wantExit: wantDep, mustRun: append(append([]string{}, mustG...), mr...), mustNot: append(append([]string{}, mustNotG...), mn...), sig: "guard=" + g.name + " pos=dep-sibling"})
			// position: nested call
			tf = hdr + "  top:\n    cmds:\n      - " + probe("before") + "\n      - task: guarded\n" + callVars(g) + "      - " + probe("after") + "\n" + guardedBody(g)
			cases = append(cases, cliCase{name: g.name + " @call", files: map[string]string{"Taskfile.yml": tf}, args: append(append([]string{}, g.flag...), "top"),
				wantExit: wantCall, mustRun: append(append([]string{"before"}, mustG...), mr...), mustNot: append(append([]string{}, mustNotG...), mn...), sig: "guard=" + g.name + " pos=call"})
			// position: deduplicated task shared by two parents
			gb := strings.Replace(guardedBody(g), "  guarded:\n", "  guarded:\n    run: once\n", 1)
			tf = hdr + "  top:\n    deps: [p1, p2]\n    cmds:\n      - " + probe("after") + "\n" +
				"  p1:\n    deps:\n      - task: guarded\n" + callVars(g) + "    cmds:\n      - " + probe("after1") + "\n" +
				"  p2:\n    deps:\n      - task: guarded\n" + callVars(g) + "    cmds:\n      - " + probe("after2") + "\n" + gb
			mr2, mn2 := mr, mn
			if set.fail && !skip {
				mn2 = []string{"after", "after1", "after2"}
			} else {
				mr2 = []string{"after", "after1", "after2"}
			}
			cases = append(cases, cliCase{name: g.name + " @shared-once", files: map[string]string{"Taskfile.yml": tf}, args: append(append([]string{}, g.flag...), "top"),
				wantExit: wantDep, mustRun: append(append([]string{}, mustG...), mr2...), mustNot: append(append([]string{}, mustNotG...), mn2...), sig: "guard=" + g.name + " pos=shared-once"})
			// position: second of two --parallel roots
			tf = hdr + "  first:\n    cmds:\n      - " + probe("first") + "\n" + guardedBody(g)
			args = append(append([]string{"--parallel"}, g.flag...), "first", "guarded")
			args = append(args, g.cli...)
			cases = append(cases, cliCase{name: g.name + " @parallel-root", files: map[string]string{"Taskfile.yml": tf}, args: args,
				wantExit: wantRoot, mustRun: mustG, mustNot: mustNotG, sig: "guard=" + g.name + " pos=parallel-root"})
		}
	}
	// the guarded dep is declared after a sibling that is still busy when the guard fails: the status is still the guard's
	busy13 := yamlq(`i=0; while [ $i -lt 3000 ]; do i=$((i+1)); done`)
	for _, g := range guards {
		if strings.HasPrefix(g.name, "platform-") || g.code <= 0 {
			continue
		}
		tf := hdr + "  top:\n    deps:\n      - task: sib\n      - task: guarded\n" + callVars(g) + "    cmds:\n      - " + probe("after") + "\n  sib:\n    cmds:\n      - " + busy13 + "\n" + guardedBody(g)
		cases = append(cases, cliCase{name: g.name + " @dep-after-busy-sibling", files: map[string]string{"Taskfile.yml": tf}, args: []string{"top"},
			wantExit: []int{g.code}, mustNot: []string{"G1", "G2", "after"}, sig: "guard=" + g.name + " pos=dep-after-busy-sibling"})
	}
	// a precondition that stops holding on a task that is otherwise up to date (sources / status): the invocation still fails
	for _, kind := range []string{"sources", "status"} {
		body := "    sources: ['in.txt']\n"
		if kind == "status" {
			body = "    status: ['test -f done.flag']\n"
		}
		gtask := "  guarded:\n" + body + "    preconditions:\n      - sh: 'test -f pre.ok'\n        msg: precondition\n    cmds:\n      - " + probe("G1") + "\n      - cmd: ': > done.flag'\n"
		for _, pos := range []string{"root", "dep", "call"} {
			tf := hdr + gtask
			args := []string{"guarded"}
			mustNot := []string{"G1"}
			switch pos {
			case "dep":
				tf += "  top:\n    deps: [guarded]\n    cmds:\n      - " + probe("after") + "\n"
				args, mustNot = []string{"top"}, []string{"G1", "after"}
			case "call":
				tf += "  top:\n    cmds:\n      - task: guarded\n      - " + probe("after") + "\n"
				args, mustNot = []string{"top"}, []string{"G1", "after"}
			}
			cases = append(cases, cliCase{name: "precondition fails on an up-to-date task (" + kind + ") @" + pos, files: map[string]string{"Taskfile.yml": tf, "in.txt": "x\n"},
				prepTouch: []string{"pre.ok"}, prep: [][]string{{"guarded"}}, prepRm: []string{"pre.ok"}, args: args,
				wantExit: nonZero(), mustNot: mustNot, sig: "guard=precondition-on-up-to-date-" + kind + " pos=" + pos})
		}
	}
	// a deduplicated guarded task whose first, failing, execution was tolerated (deferred call: errors are
	// ignored) must still fail a later caller
	for _, g := range guards {
		if strings.HasPrefix(g.name, "platform-") {
			continue
		}
		gb := strings.Replace(guardedBody(g), "  guarded:\n", "  guarded:\n    run: once\n", 1)
		dv := ""
		if g.vars != "" {
			dv = "          vars: " + g.vars + "\n"
		}
		tf := hdr + "  top:\n    cmds:\n      - task: inner\n      - task: guarded\n" + callVars(g) + "      - " + probe("after") + "\n" +
			"  inner:\n    cmds:\n      - defer:\n          task: guarded\n" + dv + "      - " + probe("inner") + "\n" + gb
		cases = append(cases, cliCase{name: g.name + " @once-after-tolerated-failure", files: map[string]string{"Taskfile.yml": tf}, args: []string{"top"},
			wantExit: nonZero(), mustRun: []string{"inner"}, mustNot: []string{"G1", "G2", "after"}, sig: "guard=" + g.name + " pos=once-after-tolerated-failure"})
	}
	// the same task called several times in one invocation: each call is checked on its own variables
	enumBody := "  guarded:\n    requires:\n      vars:\n        - name: RQ\n          enum: [good, fine]\n    cmds:\n      - " + probe("G-{{.RQ}}") + "\n"
	reqBody := "  guarded:\n    requires:\n      vars: [RQ]\n    cmds:\n      - " + probe("G-{{.RQ}}") + "\n"
	cases = append(cases,
		cliCase{name: "enum: good, fine, then bad in a for loop", files: map[string]string{"Taskfile.yml": hdr + "  top:\n    cmds:\n      - for: [good, fine, bad]\n        task: guarded\n        vars: {RQ: '{{.ITEM}}'}\n      - " + probe("after") + "\n" + enumBody},
			args: []string{"top"}, wantExit: nonZero(), mustRun: []string{"G-good", "G-fine"}, mustNot: []string{"G-bad", "after"}, sig: "guard=enum pos=later-call-bad-value"},
		cliCase{name: "enum: good dep, then bad call", files: map[string]string{"Taskfile.yml": hdr + "  top:\n    deps:\n      - task: guarded\n        vars: {RQ: good}\n    cmds:\n      - task: guarded\n        vars: {RQ: bad}\n      - " + probe("after") + "\n" + enumBody},
			args: []string{"top"}, wantExit: nonZero(), mustRun: []string{"G-good"}, mustNot: []string{"G-bad", "after"}, sig: "guard=enum pos=later-call-bad-value"},
		cliCase{name: "requires: call with the variable, then without", files: map[string]string{"Taskfile.yml": hdr + "  top:\n    cmds:\n      - task: guarded\n        vars: {RQ: x}\n      - task: guarded\n      - " + probe("after") + "\n" + reqBody},
			args: []string{"top"}, wantExit: nonZero(), mustRun: []string{"G-x"}, mustNot: []string{"G-", "after"}, sig: "guard=requires pos=later-call-missing"},
		cliCase{name: "requires: two roots, second lacks the variable", files: map[string]string{"Taskfile.yml": hdr + "  ok:\n    cmds:\n      - task: guarded\n        vars: {RQ: x}\n" + reqBody},
			args: []string{"ok", "guarded"}, wantExit: []int{206}, mustRun: []string{"G-x"}, mustNot: []string{"G-"}, sig: "guard=requires pos=later-root-missing"},
	)
	// the guarded dep fails while a sibling dep (declared before or after it) still sits in a slow precondition: the
	// status is the guard's, not the one of the sibling that is cancelled as a consequence
	slowPre := "  slowpre:\n    preconditions:\n      - sh: " + yamlq(`: > pre.started; i=0; while [ ! -f never.flag ] && [ $i -lt 300000 ]; do i=$((i+1)); done`) + "\n    cmds:\n      - " + probe("S") + "\n"
	// the guard is evaluated once the sibling is inside its precondition: dynamic variables are evaluated before the
	// enum check, deps before the prompt (a missing required variable is noticed at once and cannot be delayed)
	waitPre := `i=0; while [ ! -f pre.started ] && [ $i -lt 300000 ]; do i=$((i+1)); done`
	delayed := "    vars:\n      WAITED:\n        sh: " + yamlq(waitPre) + "\n    deps: [waitpre]\n"
	waitTask := "  waitpre:\n    cmds:\n      - " + yamlq(waitPre) + "\n"
	for _, g := range guards {
		if g.code <= 0 {
			continue
		}
		dep := "      - task: guarded\n" + callVars(g)
		for k, deps := range []string{"      - slowpre\n" + dep, dep + "      - slowpre\n"} {
			tf := hdr + "  top:\n    deps:\n" + deps + "    cmds:\n      - " + probe("after") + "\n" + slowPre + waitTask +
				strings.Replace(guardedBody(g), "  guarded:\n", "  guarded:\n"+delayed, 1)
			cases = append(cases, cliCase{name: fmt.Sprintf("%s next to a sibling in a slow precondition (order %d)", g.name, k), files: map[string]string{"Taskfile.yml": tf},
				args: []string{"top"}, wantExit: []int{g.code}, mustNot: []string{"G1", "G2", "after"}, sig: "guard=" + g.name + " pos=dep-next-to-slow-precondition"})
		}
	}
	// --force skips preconditions of the named task (documented); it must not skip the other guards
	for _, g := range guards {
		if g.code <= 0 {
			continue
		}
		args := append([]string{"--force", "guarded"}, g.cli...)
		cases = append(cases, cliCase{name: g.name + " @root --force", files: map[string]string{"Taskfile.yml": hdr + guardedBody(g)}, args: args,
			wantExit: []int{g.code}, mustNot: []string{"G1", "G2"}, sig: "guard=" + g.name + " pos=root-force"})
	}
	// internal tasks
	tf := hdr + "  hidden:\n    internal: true\n    cmds:\n      - " + probe("H") + "\n  user:\n    deps: [hidden]\n    cmds:\n      - task: hidden\n      - " + probe("U") + "\n"
	cases = append(cases,
		cliCase{name: "internal @root", files: map[string]string{"Taskfile.yml": tf}, args: []string{"hidden"}, wantExit: []int{202}, mustNot: []string{"H"}, sig: "guard=internal pos=root"},
		cliCase{name: "internal second of two roots", files: map[string]string{"Taskfile.yml": tf}, args: []string{"user", "hidden"}, wantExit: []int{202}, mustNot: []string{"H", "U"}, sig: "guard=internal pos=second-root"},
		cliCase{name: "internal via dep and call", files: map[string]string{"Taskfile.yml": tf}, args: []string{"user"}, wantExit: []int{0}, mustRun: []string{"H", "U"}, sig: "guard=internal pos=dep+call"},
		cliCase{name: "internal --parallel", files: map[string]string{"Taskfile.yml": tf}, args: []string{"--parallel", "user", "hidden"}, wantExit: []int{202}, mustNot: []string{"H", "U"}, sig: "guard=internal pos=parallel-root"},
	)
	// internal through includes: an include marked internal makes every task of the included file internal, in the
	// namespaced and in the flattened form, one and two include levels down; a task marked internal in an included file
	// stays internal; the tasks remain usable through deps and calls
	lib := "version: '3'\ntasks:\n  tool:\n    cmds:\n      - " + probe("T") + "\n  own:\n    internal: true\n    cmds:\n      - " + probe("O") + "\n"
	for _, v := range []struct {
		tag, incOpts, name, ownName string
		depth2                      bool
	}{
		{"namespaced", "    internal: true\n", "lib:tool", "", false},
		{"flattened", "    internal: true\n    flatten: true\n", "tool", "", false},
		{"task-level", "", "", "lib:own", false},
		{"task-level-flattened", "    flatten: true\n", "", "own", false},
		{"namespaced-depth2", "    internal: true\n", "mid:lib:tool", "", true},
		{"flattened-depth2", "    internal: true\n    flatten: true\n", "mid:tool", "", true},
	} {
		incl := "includes:\n  lib:\n    taskfile: ./lib.yml\n" + v.incOpts
		files := map[string]string{"lib.yml": lib}
		target := v.name
		if target == "" {
			target = v.ownName
		}
		local := strings.TrimPrefix(target, "mid:")
		user := "  user:\n    deps: ['" + local + "']\n    cmds:\n      - task: '" + local + "'\n      - " + probe("U") + "\n"
		userName := "user"
		if v.depth2 {
			files["mid.yml"] = "version: '3'\n" + incl + "tasks:\n" + user
			files["Taskfile.yml"] = "version: '3'\nsilent: true\nincludes:\n  mid: ./mid.yml\ntasks:\n  top:\n    cmds:\n      - " + probe("top") + "\n"
			userName = "mid:user"
		} else {
			files["Taskfile.yml"] = "version: '3'\nsilent: true\n" + incl + "tasks:\n" + user
		}
		mark := "T"
		if v.name == "" {
			mark = "O"
		}
		cases = append(cases,
			cliCase{name: "internal include " + v.tag + " @root", files: files, args: []string{target}, wantExit: []int{202}, mustNot: []string{mark}, sig: "guard=internal pos=root include=" + v.tag},
			cliCase{name: "internal include " + v.tag + " via dep and call", files: files, args: []string{userName}, wantExit: []int{0}, mustRun: []string{mark, "U"}, sig: "guard=internal pos=dep+call include=" + v.tag},
		)
	}
	return runCliCases("C13", scratch, bin, cases, part)
}

func indexOf(s []string, x string) int {
	for i, v := range s {
		if v == x {
			return i
		}
	}
	return -1
}

func otherArch() string {
	if runtime.GOARCH == "arm64" {
		return "amd64"
	}
	return "arm64"
}

func nonZero() []int {
	var out []int
	for i := 1; i < 256; i++ {
		out = append(out, i)
	}
	return out
}
