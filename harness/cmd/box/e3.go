package main

// Engine E3: random histories of file operations and CLI invocations against
// one project directory, judged online by a state-machine monitor that encodes
// C04 (up-to-date soundness), C05 (change detection / idempotence) and C12
// (read-only modes have no side effects) as stated.

import (
	"encoding/json"
	"fmt"
	"math/rand"
	"os"
	"path/filepath"
	"sort"
	"strings"
	"time"

	"github.com/go-task/task/v3/verifh/h"
)

func init() {
	checks["C04"] = runE3
	checks["C05"] = runE3
	checks["C12"] = runE3
}

type e3Shape struct {
	Method   string // checksum | timestamp
	Glob     int    // index into e3Globs
	Shape    string // plain | deps | label | ns | collide
	Gen      bool   // has generates
	Status   bool   // has status
	Prompt   bool   // has prompt
	Silent   string // "" | task | cmd | taskfile : where silent: true is put (dry runs must not execute silenced commands)
	NCmds    int
	IgnoreC1 bool   // the first command carries ignore_error: true (a cancelled command is not an ignorable failure)
	TaskName string // CLI name of the task under test
	TaskVar  string // NAME=value passed with the task under test ("" = none)
	OtherVar string // NAME=value passed with the other task
	Other    string // CLI name of another task with the same sources
}

type e3Glob struct {
	name    string
	yaml    string
	matched func(rel string) bool
	pool    []string // files that may be created
}

var e3Globs = []e3Glob{
	{"star", "['src/*.txt']", func(r string) bool {
		return strings.HasPrefix(r, "src/") && strings.Count(r, "/") == 1 && strings.HasSuffix(r, ".txt")
	}, []string{"src/a.txt", "src/b.txt", "src/c.txt", "src/x_1.txt", "src/n.md", "other/e.txt", "src/sub/d.txt"}},
	{"globstar", "['src/**/*.txt']", func(r string) bool {
		return strings.HasPrefix(r, "src/") && strings.Count(r, "/") >= 2 && strings.HasSuffix(r, ".txt")
	}, []string{"src/sub/a.txt", "src/sub/b.txt", "src/sub/deep/c.txt", "src/sub/n.md", "other/e.txt"}},
	{"incl-then-excl", "['src/*.txt', {exclude: 'src/x_*.txt'}]", func(r string) bool {
		return strings.HasPrefix(r, "src/") && strings.Count(r, "/") == 1 && strings.HasSuffix(r, ".txt") && !strings.HasPrefix(r, "src/x_")
	}, []string{"src/a.txt", "src/b.txt", "src/x_1.txt", "src/x_2.txt", "src/n.md"}},
	{"excl-then-incl", "[{exclude: 'src/x_*.txt'}, 'src/*.txt']", func(r string) bool {
		return strings.HasPrefix(r, "src/") && strings.Count(r, "/") == 1 && strings.HasSuffix(r, ".txt")
	}, []string{"src/a.txt", "src/b.txt", "src/x_1.txt", "src/n.md"}},
	{"explicit", "['src/a.txt', 'src/b.txt']", func(r string) bool { return r == "src/a.txt" || r == "src/b.txt" },
		[]string{"src/a.txt", "src/b.txt", "src/c.txt"}},
	{"two-dirs", "['src/*.txt', 'lib/*.txt']", func(r string) bool {
		return (strings.HasPrefix(r, "src/") || strings.HasPrefix(r, "lib/")) && strings.Count(r, "/") == 1 && strings.HasSuffix(r, ".txt")
	}, []string{"src/a.txt", "src/b.txt", "lib/a.txt", "lib/z.txt", "src/n.md"}},
}

func (s e3Shape) render() map[string]string {
	var b strings.Builder
	body := func(name string, n int, gen bool) string {
		var c strings.Builder
		for k := 1; k <= n; k++ {
			cmd := fmt.Sprintf(`if [ -f fail%d.flag ]; then exit 3; fi; printf '%s c%d\n' >> "$VERIF_TRACE"`, k, name, k)
			if k == 1 {
				// cancellation scenario: announce, then spin until cancelled
				cmd += `; if [ -n "$VERIF_SPIN" ]; then : > spin.started; while [ ! -f never.flag ]; do :; done; fi`
				// edit-during-run scenario: announce, then wait until the harness has edited a source
				cmd += `; if [ -n "$VERIF_PAUSE" ]; then : > pause.started; while [ ! -f pause.release ]; do :; done; fi`
			}
			if gen && k == n {
				cmd += ` && mkdir -p out && printf g > out/gen.txt && printf g > out/gen2.txt`
			}
			fmt.Fprintf(&c, "      - cmd: %s\n", yamlq(cmd))
			if s.Silent == "cmd" && name == "tut" {
				c.WriteString("        silent: true\n")
			}
			if s.IgnoreC1 && name == "tut" && k == 1 {
				c.WriteString("        ignore_error: true\n")
			}
		}
		return c.String()
	}
	taskBody := func(name string, indent bool) string {
		var t strings.Builder
		fmt.Fprintf(&t, "  %s:\n", name)
		fmt.Fprintf(&t, "    method: %s\n", s.Method)
		if s.Shape == "labelvar" && name == "tut" {
			t.WriteString("    sources: ['{{.TARGET}}/*.txt']\n")
		} else {
			fmt.Fprintf(&t, "    sources: %s\n", e3Globs[s.Glob].yaml)
		}
		if s.Gen {
			t.WriteString("    generates: ['out/gen.txt', 'out/gen2.txt']\n")
		}
		if s.Status {
			t.WriteString("    status: ['test -f status.ok']\n")
		}
		return t.String()
	}
	b.WriteString("version: '3'\n")
	if s.Silent == "taskfile" {
		b.WriteString("silent: true\n")
	}
	local := "tut"
	switch s.Shape {
	case "ns":
		b.WriteString("includes:\n  inc: ./inc.yml\n")
	case "collide":
		b.WriteString("includes:\n  a: ./inc.yml\n")
		local = "a-b"
	}
	b.WriteString("tasks:\n")
	tut := func(w *strings.Builder, name string) {
		w.WriteString(taskBody(name, false))
		if s.Shape == "label" {
			w.WriteString("    label: 'the task under test'\n")
		}
		if s.Shape == "labelvar" {
			w.WriteString("    label: 'tut-{{.TARGET}}'\n")
		}
		if s.Prompt {
			w.WriteString("    prompt: 'really?'\n")
		}
		if s.Silent == "task" {
			w.WriteString("    silent: true\n")
		}
		if s.Shape == "deps" || s.Shape == "depgen" {
			w.WriteString("    deps: [dep1]\n")
		}
		w.WriteString("    cmds:\n")
		w.WriteString(body("tut", s.NCmds, s.Gen))
	}
	files := map[string]string{}
	if s.Shape == "ns" {
		var inc strings.Builder
		inc.WriteString("version: '3'\ntasks:\n")
		tut(&inc, "tut")
		files["inc.yml"] = inc.String()
	} else {
		tut(&b, local)
	}
	if s.Shape == "depgen" {
		// the dependency (re)generates one of the task's own sources from a file outside them, when that file changed
		b.WriteString("  dep1:\n    cmds:\n      - cmd: " + yamlq(`printf 'dep1 c1\n' >> "$VERIF_TRACE"; if [ "$(cat spec.in)" != "$(cat src/a.txt)" ]; then cat spec.in > src/a.txt; fi`) + "\n")
	}
	if s.Shape == "deps" {
		b.WriteString("  dep1:\n    cmds:\n      - cmd: " + yamlq(`printf 'dep1 c1\n' >> "$VERIF_TRACE"`) + "\n")
	}
	// another task with the same sources (a different task's attempts must never count)
	if s.Shape == "collide" {
		var inc strings.Builder
		inc.WriteString("version: '3'\ntasks:\n")
		inc.WriteString(taskBody("b", false))
		inc.WriteString("    cmds:\n" + body("other", 1, false))
		files["inc.yml"] = inc.String()
	} else {
		b.WriteString(taskBody("other", false))
		b.WriteString("    cmds:\n" + body("other", 1, false))
	}
	// a task whose dir: does not exist yet (read-only modes must not create it)
	b.WriteString("  withdir:\n    dir: newdir/sub\n    vars:\n      HERE: {sh: 'pwd'}\n    env:\n      EHERE: {sh: 'pwd'}\n    cmds:\n      - cmd: " + yamlq(`printf 'withdir c1\n' >> "$VERIF_TRACE"`) + "\n")
	// a task with sources whose sub-call can be made to fail a precondition (read-only modes must not touch its state)
	b.WriteString("  prefail:\n    preconditions: ['test -f pre.ok']\n    cmds:\n      - cmd: " + yamlq(`printf 'prefail c1\n' >> "$VERIF_TRACE"`) + "\n")
	b.WriteString(strings.Replace(taskBody("withsub", false), "    generates: ['out/gen.txt', 'out/gen2.txt']\n", "", 1))
	b.WriteString("    cmds:\n      - cmd: " + yamlq(`printf 'withsub c1\n' >> "$VERIF_TRACE"`) + "\n      - task: prefail\n")
	// a parent that runs the task under test next to a failing sibling
	b.WriteString("  sibling:\n    cmds:\n      - cmd: " + yamlq(`i=0; while [ ! -f spin.started ] && [ $i -lt 30000 ]; do i=$((i+1)); done; exit 1`) + "\n")
	if s.TaskVar != "" {
		kv := strings.SplitN(s.TaskVar, "=", 2)
		fmt.Fprintf(&b, "  parent:\n    deps:\n      - task: '%s'\n        vars: {%s: '%s'}\n      - sibling\n", s.TaskName, kv[0], kv[1])
	} else {
		fmt.Fprintf(&b, "  parent:\n    deps: ['%s', sibling]\n", s.TaskName)
	}
	files["Taskfile.yml"] = b.String()
	return files
}

func yamlq(s string) string { return "'" + strings.ReplaceAll(s, "'", "''") + "'" }

type e3Op struct {
	Kind string // file ops: edit touch add remove rename move edit-unmatched del-gen status-off status-on
	// invocations: run run-fail run-force run-yes run-dry run-status list-json list list-all summary run-other kill run-cancel
	Arg string
	K   int
}

type e3Step struct {
	Op       string `json:"op"`
	Exit     int    `json:"exit,omitempty"`
	Observed string `json:"observed,omitempty"`
	Expected string `json:"expected,omitempty"`
	F        string `json:"fingerprint,omitempty"`
}

type e3State struct {
	othersWroteGen bool // labelvar + generates: the other instance rewrote the shared outputs since this one last ran
	shape          e3Shape
	dir            string
	bin            string
	files          map[string]string // matched-or-not project files created by the harness: rel -> content
	serial         int
	prevSet        bool
	prevF          string
	prevOut        string   // success | skipped | failed | declined | killed | cancelled
	since          []string // read-only / other-task operations since the last plain invocation of the task
	changes        []string // file operations since the last plain invocation
	statusOK       bool
	steps          []e3Step
	goodSet        bool
	goodF          string            // fingerprint at the most recent successful (or legitimately skipped) plain invocation
	lastByF        map[string]string // fingerprint -> outcome of the most recent attempt observed for it
	lastEdit       [3]string         // file, content before, content after the last edit
	ownState       map[string]bool   // state files under .task written by plain runs of the task under test
	reportedSkipF  string
	prevView       map[string]string // matched files at the last plain invocation: rel -> content "@" mtime
}

func (st *e3State) view() map[string]string {
	g := e3Globs[st.shape.Glob]
	v := map[string]string{}
	for rel, content := range st.files {
		if !g.matched(rel) {
			continue
		}
		mt := int64(0)
		if fi, err := os.Stat(filepath.Join(st.dir, rel)); err == nil {
			mt = fi.ModTime().UnixNano()
		}
		v[rel] = fmt.Sprintf("%s@%d", content, mt)
	}
	return v
}

// netChange classifies the net difference between the matched files at the last plain
// invocation and now, in terms the fingerprint definition of the method cares about.
func (st *e3State) netChange() string {
	now := st.view()
	var added, removed, modified, touched []string
	for k, v := range now {
		pv, ok := st.prevView[k]
		switch {
		case !ok:
			added = append(added, k)
		case pv != v && strings.Split(pv, "@")[0] != strings.Split(v, "@")[0]:
			modified = append(modified, k)
		case pv != v:
			touched = append(touched, k)
		}
	}
	for k := range st.prevView {
		if _, ok := now[k]; !ok {
			removed = append(removed, k)
		}
	}
	if st.shape.Method == "timestamp" {
		// additions, edits and touches carry a modification time after the last run
		newer := false
		for _, k := range append(append(added, modified...), touched...) {
			pv, had := st.prevView[k]
			if !had || pv != now[k] {
				// a file renamed/moved with its old mtime is not "newer"
				mt := strings.Split(now[k], "@")[1]
				old := false
				for _, r := range removed {
					if strings.HasSuffix(st.prevView[r], "@"+mt) {
						old = true
					}
				}
				if !old {
					newer = true
				}
			}
		}
		if newer {
			return "newer-mtime"
		}
		if len(removed) > 0 || len(added) > 0 {
			return "membership-only(remove/rename/move, mtimes preserved)"
		}
		return "none"
	}
	// checksum: names and contents
	moved := 0
	for _, a := range added {
		for _, r := range removed {
			if filepath.Base(a) == filepath.Base(r) && strings.Split(now[a], "@")[0] == strings.Split(st.prevView[r], "@")[0] {
				moved++
			}
		}
	}
	if len(modified) > 0 || len(added) > moved || len(removed) > moved {
		return "name-or-content"
	}
	if moved > 0 {
		return "move-keeping-basename"
	}
	return "none"
}

func (st *e3State) fingerprint() string {
	g := e3Globs[st.shape.Glob]
	var parts []string
	for rel, content := range st.files {
		if !g.matched(rel) {
			continue
		}
		if st.shape.Method == "timestamp" {
			fi, err := os.Stat(filepath.Join(st.dir, rel))
			if err != nil {
				continue
			}
			parts = append(parts, fmt.Sprintf("%s@%d", rel, fi.ModTime().UnixNano()))
		} else {
			parts = append(parts, rel+"="+content)
		}
	}
	sort.Strings(parts)
	return h.Hash(parts...)
}

func (st *e3State) matchedFiles() []string {
	g := e3Globs[st.shape.Glob]
	var out []string
	for rel := range st.files {
		if g.matched(rel) {
			out = append(out, rel)
		}
	}
	sort.Strings(out)
	return out
}

func (st *e3State) write(rel, content string) {
	p := filepath.Join(st.dir, rel)
	os.MkdirAll(filepath.Dir(p), 0o755)
	os.WriteFile(p, []byte(content), 0o644)
	st.stamp(rel)
	st.files[rel] = content
}

// stamp gives the file a fine-grained "now" mtime. File mtimes normally come from the
// kernel's coarse clock, which may lag behind the time.Now() Task stamped its marker
// with; an explicit stamp makes "edited after the last run" physically true.
func (st *e3State) stamp(rel string) {
	now := time.Now()
	os.Chtimes(filepath.Join(st.dir, rel), now, now)
}

func (st *e3State) genExists() bool {
	_, err1 := os.Stat(filepath.Join(st.dir, "out/gen.txt"))
	_, err2 := os.Stat(filepath.Join(st.dir, "out/gen2.txt"))
	return err1 == nil && err2 == nil
}

type e3Inv struct {
	args  []string
	env   []string
	plain bool // a normal run of the task under test
	ro    bool // read-only mode
	force bool
	yes   bool
	label string
}

func (st *e3State) invoke(inv e3Inv) (h.Result, string) {
	trace := filepath.Join(st.dir, ".trace")
	os.Remove(trace)
	env := append([]string{"VERIF_TRACE=" + trace}, inv.env...)
	r := h.CLI{Bin: st.bin, Dir: st.dir, Args: inv.args, Env: env, Timeout: 60 * time.Second}.Run()
	tr := h.ReadFile(trace)
	os.Remove(trace)
	return r, tr
}

func tutProbes(trace string) int {
	n := 0
	for _, l := range strings.Split(trace, "\n") {
		if strings.HasPrefix(l, "tut c") {
			n++
		}
	}
	return n
}

type e3Verdict struct {
	sig, what string
	props     []string
}

// step executes one operation and returns the violations it exposed.
func (st *e3State) step(op e3Op, rng *rand.Rand, part *h.Partial) []e3Verdict {
	var out []e3Verdict
	sh := st.shape
	rec := e3Step{Op: op.Kind}
	defer func() { st.steps = append(st.steps, rec) }()
	fileOp := func(kind string) {
		st.changes = append(st.changes, kind)
		part.Count("file_ops", 1)
	}
	switch op.Kind {
	case "edit":
		m := st.matchedFiles()
		if len(m) == 0 {
			rec.Op = "edit(skip)"
			return nil
		}
		f := m[rng.Intn(len(m))]
		st.serial++
		st.lastEdit = [3]string{f, st.files[f], fmt.Sprintf("content %d\n", st.serial)}
		st.write(f, st.lastEdit[2])
		rec.Op = "edit " + f
		fileOp("edit")
	case "revert", "redo":
		// put back the content a file had before (revert) / after (redo) the last edit: the fingerprint
		// returns to a value for which attempts were already observed
		if st.lastEdit[0] == "" {
			rec.Op = op.Kind + "(skip)"
			return nil
		}
		if _, ok := st.files[st.lastEdit[0]]; !ok {
			rec.Op = op.Kind + "(skip)"
			return nil
		}
		c := st.lastEdit[1]
		if op.Kind == "redo" {
			c = st.lastEdit[2]
		}
		st.write(st.lastEdit[0], c)
		rec.Op = op.Kind + " " + st.lastEdit[0]
		fileOp("edit")
	case "touch":
		m := st.matchedFiles()
		if len(m) == 0 {
			rec.Op = "touch(skip)"
			return nil
		}
		f := m[rng.Intn(len(m))]
		st.stamp(f)
		rec.Op = "touch " + f
		fileOp("touch")
	case "add":
		g := e3Globs[sh.Glob]
		var cand []string
		for _, f := range g.pool {
			if _, ok := st.files[f]; !ok && g.matched(f) {
				cand = append(cand, f)
			}
		}
		if len(cand) == 0 {
			rec.Op = "add(skip)"
			return nil
		}
		f := cand[rng.Intn(len(cand))]
		st.serial++
		st.write(f, fmt.Sprintf("content %d\n", st.serial))
		rec.Op = "add " + f
		fileOp("add")
	case "remove":
		m := st.matchedFiles()
		if len(m) < 2 {
			rec.Op = "remove(skip)"
			return nil
		}
		f := m[rng.Intn(len(m))]
		os.Remove(filepath.Join(st.dir, f))
		delete(st.files, f)
		rec.Op = "remove " + f
		fileOp("remove")
	case "rename":
		// rename a matched file to another matched name in the same directory, keeping content and mtime
		g := e3Globs[sh.Glob]
		m := st.matchedFiles()
		if len(m) == 0 {
			rec.Op = "rename(skip)"
			return nil
		}
		f := m[rng.Intn(len(m))]
		var cand []string
		for _, t := range g.pool {
			if _, ok := st.files[t]; !ok && g.matched(t) && filepath.Dir(t) == filepath.Dir(f) {
				cand = append(cand, t)
			}
		}
		if len(cand) == 0 {
			rec.Op = "rename(skip)"
			return nil
		}
		t := cand[rng.Intn(len(cand))]
		os.MkdirAll(filepath.Dir(filepath.Join(st.dir, t)), 0o755)
		os.Rename(filepath.Join(st.dir, f), filepath.Join(st.dir, t))
		st.files[t] = st.files[f]
		delete(st.files, f)
		rec.Op = "rename " + f + " -> " + t
		fileOp("rename")
	case "free-move-target":
		// make sure a cross-directory move keeping the base name is possible: free one target
		g := e3Globs[sh.Glob]
		for _, x := range st.matchedFiles() {
			for _, y := range g.pool {
				if _, ok := st.files[y]; ok && y != x && g.matched(y) && filepath.Base(x) == filepath.Base(y) && filepath.Dir(x) != filepath.Dir(y) {
					os.Remove(filepath.Join(st.dir, y))
					delete(st.files, y)
					rec.Op = "free-move-target (removed " + y + ")"
					fileOp("remove")
					return nil
				}
			}
		}
		rec.Op = "free-move-target(nothing to do)"
	case "move":
		// move a matched file to another matched directory keeping its base name, content and mtime
		g := e3Globs[sh.Glob]
		m := st.matchedFiles()
		var f, t string
		for _, x := range m {
			for _, y := range g.pool {
				if _, ok := st.files[y]; !ok && g.matched(y) && filepath.Base(x) == filepath.Base(y) && filepath.Dir(x) != filepath.Dir(y) {
					f, t = x, y
				}
			}
		}
		if f == "" {
			rec.Op = "move(skip)"
			return nil
		}
		os.MkdirAll(filepath.Dir(filepath.Join(st.dir, t)), 0o755)
		os.Rename(filepath.Join(st.dir, f), filepath.Join(st.dir, t))
		st.files[t] = st.files[f]
		delete(st.files, f)
		rec.Op = "move " + f + " -> " + t
		fileOp("move")
	case "edit-spec":
		if sh.Shape != "depgen" {
			rec.Op = "edit-spec(skip)"
			return nil
		}
		st.serial++
		st.write("spec.in", fmt.Sprintf("content %d\n", st.serial))
		rec.Op = "edit-spec"
		part.Count("file_ops", 1)
	case "edit-unmatched":
		g := e3Globs[sh.Glob]
		var cand []string
		for _, f := range g.pool {
			if !g.matched(f) {
				cand = append(cand, f)
			}
		}
		if len(cand) == 0 {
			return nil
		}
		f := cand[rng.Intn(len(cand))]
		for _, c := range cand {
			if c == op.Arg {
				f = c // a particular unmatched file was asked for
			}
		}
		st.serial++
		st.write(f, fmt.Sprintf("unmatched %d\n", st.serial))
		rec.Op = "edit-unmatched " + f
		part.Count("file_ops", 1)
	case "del-gen":
		if !sh.Gen || !st.genExists() {
			rec.Op = "del-gen(skip)"
			return nil
		}
		// one of the two outputs (the other one still matches its generates entry)
		which := []string{"out/gen.txt", "out/gen2.txt"}[rng.Intn(2)]
		os.Remove(filepath.Join(st.dir, which))
		rec.Op = "del-gen " + which
		fileOp("del-gen")
	case "status-off":
		if !sh.Status || !st.statusOK {
			rec.Op = "status-off(skip)"
			return nil
		}
		os.Remove(filepath.Join(st.dir, "status.ok"))
		st.statusOK = false
		fileOp("status-off")
	case "status-on":
		if !sh.Status || st.statusOK {
			rec.Op = "status-on(skip)"
			return nil
		}
		os.WriteFile(filepath.Join(st.dir, "status.ok"), nil, 0o644)
		st.statusOK = true
		part.Count("file_ops", 1)

	// ---- read-only invocations -------------------------------------------------
	case "setup-withsub":
		os.WriteFile(filepath.Join(st.dir, "pre.ok"), nil, 0o644)
		r, _ := st.invoke(e3Inv{args: []string{"withsub"}})
		rec.Exit = r.Exit
		os.Remove(filepath.Join(st.dir, "pre.ok"))
	case "run-dry", "run-status", "list-json", "list-all-json", "list", "list-all", "summary", "dry-withdir", "summary-withdir", "dry-parent", "dry-withsub", "status-withsub":
		args := map[string][]string{
			"dry-withsub":     {"--dry", "withsub"},
			"status-withsub":  {"--status", "withsub"},
			"dry-withdir":     {"--dry", "withdir"},
			"summary-withdir": {"--summary", "withdir"},
			"dry-parent":      {"--dry", "parent"},
			"run-dry":         sh.withVar("--dry", sh.TaskName),
			"run-status":      sh.withVar("--status", sh.TaskName),
			"list-json":       {"--list", "--json"},
			"list-all-json":   {"--list-all", "--json"},
			"list":            {"--list"},
			"list-all":        {"--list-all"},
			"summary":         sh.withVar("--summary", sh.TaskName),
		}[op.Kind]
		before := h.Snap(st.dir, true)
		r, tr := st.invoke(e3Inv{args: args})
		after := h.Snap(st.dir, true)
		rec.Exit = r.Exit
		part.Count("readonly_invocations", 1)
		part.SetAdd("readonly_modes", op.Kind)
		if r.TimedOut {
			part.Inconc("watchdog on " + op.Kind)
			return nil
		}
		if d := before.Diff(after); len(d) > 0 {
			kinds := classifyDiff(d)
			out = append(out, e3Verdict{fmt.Sprintf("%s | side-effect | mode=%s | %s", "C12", op.Kind, kinds),
				fmt.Sprintf("%s changed the project directory: %v", strings.Join(args, " "), d), []string{"C12"}})
		}
		if strings.TrimSpace(tr) != "" {
			out = append(out, e3Verdict{fmt.Sprintf("%s | executed-cmds | mode=%s", "C12", op.Kind),
				fmt.Sprintf("%s executed commands: %q", strings.Join(args, " "), tr), []string{"C12"}})
		}
		if r.Crashed() {
			out = append(out, e3Verdict{"C12 | crash | mode=" + op.Kind, h.Truncate(r.Stderr, 400), []string{"C12"}})
		}
		if taskDirChanged(before, after) {
			st.since = append(st.since, op.Kind)
		}
	case "run-other":
		before := h.Snap(st.dir, true)
		otherArgs := []string{sh.Other}
		if sh.OtherVar != "" {
			otherArgs = append(otherArgs, sh.OtherVar)
		}
		r, otr := st.invoke(e3Inv{args: otherArgs})
		after := h.Snap(st.dir, true)
		if sh.Shape == "labelvar" && sh.Gen && tutProbes(otr) > 0 {
			// the other instance of the task has just rewritten the outputs both instances declare: with method
			// timestamp they are now newer than this instance's sources, which by the documented rule (sources against
			// generates) means up to date — outputs shared by two instances are outside what the statement describes
			st.othersWroteGen = true
		}
		rec.Exit = r.Exit
		part.Count("other_task_invocations", 1)
		// another task legitimately records its own state; it is a possible cause only if it
		// touched the state file the task under test uses (same normalised name)
		for _, l := range before.Diff(after) {
			for f := range st.ownState {
				if strings.Contains(l, " "+f+":") || strings.HasSuffix(l, " "+f) || strings.Contains(l, " "+f+" ") {
					st.since = append(st.since, "other-task-same-state-file")
				}
			}
		}

	// ---- plain invocations of the task under test ------------------------------
	case "run", "run-fail", "run-force", "run-force-decline", "run-force-fail", "run-yes", "kill", "run-cancel", "run-cancel-force", "run-edit":
		inv := e3Inv{args: sh.withVar(sh.TaskName), plain: true}
		failFlag := ""
		switch op.Kind {
		case "run-fail":
			failFlag = fmt.Sprintf("fail%d.flag", op.K)
			os.WriteFile(filepath.Join(st.dir, failFlag), nil, 0o644)
			if sh.Prompt {
				inv.args = append(inv.args, "--yes")
				inv.yes = true
			}
		case "run-force-fail":
			failFlag = fmt.Sprintf("fail%d.flag", op.K)
			os.WriteFile(filepath.Join(st.dir, failFlag), nil, 0o644)
			inv.args = append(inv.args, "--force")
			inv.force = true
			if sh.Prompt {
				inv.args = append(inv.args, "--yes")
				inv.yes = true
			}
		case "run-force-decline":
			// --force without --yes on a task with a prompt: the prompt comes (the up-to-date check is skipped),
			// nobody answers, nothing may run, and the declined attempt is the last one for this fingerprint
			inv.args = append(inv.args, "--force")
			inv.force = true
		case "run-force":
			inv.args = append(inv.args, "--force")
			inv.force = true
			if sh.Prompt {
				inv.args = append(inv.args, "--yes")
				inv.yes = true
			}
		case "run-yes":
			inv.args = append(inv.args, "--yes")
			inv.yes = true
		case "run-edit":
			// a matched source is edited while the commands run (after the up-to-date check): the run counts
			// for the fingerprint it checked, and the edit must make the next run execute again
			// (not judged for timestamp + generates: there the documented reference is the newest of the
			// generates and the last run, so an edit older than the outputs written after it is by design not
			// seen; the property quantifies over file operations between runs and does not decide this case)
			if !(sh.Method == "timestamp" && sh.Gen) {
				inv.env = append(inv.env, "VERIF_PAUSE=1")
			}
			if sh.Prompt {
				inv.args = append(inv.args, "--yes")
				inv.yes = true
			}
			os.Remove(filepath.Join(st.dir, "pause.started"))
			os.Remove(filepath.Join(st.dir, "pause.release"))
		case "kill":
			inv.env = append(inv.env, "TASK_VERIF_KILL_AT="+op.Arg)
			if sh.Prompt {
				inv.args = append(inv.args, "--yes")
				inv.yes = true
			}
		case "run-cancel", "run-cancel-force":
			inv.args = []string{"parent"}
			if op.Kind == "run-cancel-force" {
				// --force (which forces dependencies too unless the gentle-force experiment is on) re-runs the up-to-date dep; the failing sibling cancels it part-way
				inv.args = []string{"--force", "parent"}
				inv.force = true
			}
			inv.env = append(inv.env, "VERIF_SPIN=1")
			if sh.Prompt {
				inv.args = append(inv.args, "--yes")
				inv.yes = true
			}
			os.Remove(filepath.Join(st.dir, "spin.started"))
		}
		if sh.Shape == "depgen" && st.files["spec.in"] != st.files["src/a.txt"] {
			// the dependency runs before the task's up-to-date check and rewrites the source: the attempt belongs to
			// the fingerprint after that (checksum only: the content is predictable, the modification time is not)
			st.files["src/a.txt"] = st.files["spec.in"]
			st.changes = append(st.changes, "edit")
			part.Count("sources_rewritten_by_a_dependency", 1)
		}
		fNow := st.fingerprint()
		genOK := !sh.Gen || st.genExists()
		statusOK := !sh.Status || st.statusOK
		// mustSkip (C05, idempotence): the immediately preceding plain invocation succeeded or was itself a
		// legitimate skip, and nothing relevant changed since.
		expectSkip := st.prevSet && (st.prevOut == "success" || st.prevOut == "skipped") && st.prevF == fNow && genOK && statusOK && !inv.force
		// maySkip (C04 + C05 completeness): the present fingerprint is the one of the last run that Task could
		// record as good, and the most recent attempt for it succeeded. (Example: success at A, an attempt at B
		// is killed, the files return to A: skipping is legitimate although the previous invocation was killed.)
		maySkip := expectSkip || (st.goodSet && st.goodF == fNow && st.lastByF[fNow] == "success" && genOK && statusOK && !inv.force)
		// After a process that was killed when all commands had completed, but before it exited, both
		// running again and skipping are acceptable for the same fingerprint (the property only forbids
		// a skip after an attempt that did not run all commands, and only demands a skip after a
		// successful run).
		beforeOwn := h.Snap(filepath.Join(st.dir, ".task"), true)
		noJudge := st.prevSet && st.prevOut == "killed-complete" && st.prevF == fNow && genOK && statusOK && !inv.force
		var r h.Result
		var tr string
		var during *[3]string // file, old content, new content of an edit made while the commands were running
		var viewBefore map[string]string
		if op.Kind == "run-edit" {
			viewBefore = st.view()
			done := make(chan struct{})
			go func() { r, tr = st.invoke(inv); close(done) }()
			paused := false
			for !paused {
				select {
				case <-done:
				default:
					if _, err := os.Stat(filepath.Join(st.dir, "pause.started")); err == nil {
						paused = true
					} else {
						time.Sleep(2 * time.Millisecond)
					}
					continue
				}
				break
			}
			if paused {
				if m := st.matchedFiles(); len(m) > 0 {
					f := m[rng.Intn(len(m))]
					st.serial++
					during = &[3]string{f, st.files[f], fmt.Sprintf("content %d\n", st.serial)}
					os.WriteFile(filepath.Join(st.dir, f), []byte(during[2]), 0o644)
					st.stamp(f)
				}
				os.WriteFile(filepath.Join(st.dir, "pause.release"), nil, 0o644)
				<-done
				part.Count("edits_during_a_run", 1)
			}
			os.Remove(filepath.Join(st.dir, "pause.started"))
			os.Remove(filepath.Join(st.dir, "pause.release"))
		} else {
			r, tr = st.invoke(inv)
		}
		if !strings.HasPrefix(op.Kind, "run-cancel") {
			if st.ownState == nil {
				st.ownState = map[string]bool{}
			}
			for _, l := range beforeOwn.Diff(h.Snap(filepath.Join(st.dir, ".task"), true)) {
				f := strings.Fields(l)
				if len(f) >= 2 && !strings.HasSuffix(strings.TrimSuffix(f[1], ":"), ".pending") {
					st.ownState[".task/"+strings.TrimSuffix(f[1], ":")] = true
				}
			}
		}
		if failFlag != "" {
			os.Remove(filepath.Join(st.dir, failFlag))
		}
		os.Remove(filepath.Join(st.dir, "spin.started"))
		rec.Exit, rec.F = r.Exit, fNow
		part.Count("plain_invocations", 1)
		if r.Exit >= 100 && r.Exit <= 110 {
			// the generated project does not load: a harness defect, never a verdict
			part.Count("generated_project_does_not_load", 1)
			part.Inconc(fmt.Sprintf("generated project did not load (exit %d): %s", r.Exit, h.Truncate(r.Stderr, 200)))
		}
		if r.TimedOut {
			part.Inconc("watchdog on " + op.Kind)
			st.prevSet = false
			return nil
		}
		n := tutProbes(tr)
		var observed string
		switch {
		case r.Signal != "" && n == sh.NCmds:
			observed = "killed-complete" // killed after the last command had completed, before Task could finish
		case r.Signal != "":
			observed = "killed"
		case n == 0 && r.Exit == 0:
			observed = "skipped"
		case n == sh.NCmds && r.Exit == 0:
			observed = "success"
		case r.Exit == 205 && n == 0:
			observed = "declined"
		case strings.HasPrefix(op.Kind, "run-cancel") && n == 0 && (strings.Contains(r.Stderr, "is up to date") || expectSkip):
			observed = "skipped"
		case strings.HasPrefix(op.Kind, "run-cancel"):
			observed = "cancelled"
		default:
			observed = "failed"
		}
		if r.Crashed() {
			out = append(out, e3Verdict{"C04 | crash | op=" + op.Kind, h.Truncate(r.Stderr, 400), []string{"C04", "C05", "C12"}})
		}
		rec.Observed = observed
		rec.Expected = map[bool]string{true: "skip", false: "run"}[expectSkip]
		part.SetAdd("observed_outcomes", observed)
		part.Count("outcome_"+observed, 1)
		if op.Kind == "kill" && observed != "killed" {
			part.Count("kill_point_not_reached", 1)
		}
		if op.Kind == "kill" && observed == "killed" {
			part.SetAdd("kill_points_hit", fmt.Sprintf("%s/%s/n%d/%s", sh.Method, sh.Shape, sh.NCmds, op.Arg))
		}
		via := "none"
		if len(st.since) > 0 {
			via = uniqJoin(st.since)
		}
		switch {
		case noJudge:
			part.Count("unjudged_after_kill_at_completion", 1)
			if observed == "skipped" {
				observed = "killed-complete"
			}
		case observed == "skipped" && !maySkip && sh.Method == "timestamp" && st.othersWroteGen && !inv.force:
			part.Count("unjudged_outputs_rewritten_by_the_other_instance", 1)
		case observed == "skipped" && !maySkip && st.reportedSkipF == fNow && !inv.force:
			// the same illegitimate skip as already reported in this history (nothing changed since)
			part.Count("repeated_illegitimate_skips_not_re-reported", 1)
		case observed == "skipped" && !maySkip:
			st.reportedSkipF = fNow
			// the task was skipped although the monitor's record demands a run
			prev := st.prevOut
			if !st.prevSet {
				prev = "never-run"
			}
			changed := st.goodSet && st.goodF != fNow
			switch {
			case inv.force:
				out = append(out, e3Verdict{fmt.Sprintf("C05 | %s | force | skipped", sh.Method), "--force did not run the task", []string{"C05"}})
			case changed || !genOK || !statusOK:
				why := st.netChange()
				if strings.Contains(via, "other-task-same-state-file") {
					why += "+via-other-task-same-state-file"
				}
				if !genOK {
					why += "+gen-missing"
				}
				if !statusOK {
					why += "+status-failing"
				}
				props := []string{"C05"}
				if prev != "success" && prev != "skipped" {
					props = append(props, "C04")
				}
				out = append(out, e3Verdict{fmt.Sprintf("C05 | %s | change=%s | skipped", sh.Method, why),
					fmt.Sprintf("task skipped although %s happened since the last run (prev outcome %s)", why, prev), props})
				// C04 looks at the most recent attempt for the *present* fingerprint, whenever it was
				if last, ok := st.lastByF[fNow]; genOK && statusOK && (!ok || last != "success") {
					if !ok {
						last = "none"
					}
					out = append(out, e3Verdict{fmt.Sprintf("C04 | %s | last-attempt-for-this-fingerprint=%s | skipped", sh.Method, last),
						fmt.Sprintf("task reported up to date and skipped although the most recent attempt for the present fingerprint was %q (the fingerprint was left and came back: %s)", last, why), []string{"C04"}})
				}
			default:
				props := []string{"C04"}
				if via != "none" && via != "other-task" {
					props = append(props, "C12")
				}
				sigVia := via
				if prev != "never-run" && prev != "success" && prev != "skipped" {
					sigVia = "-" // the bad previous attempt is the cause, whatever happened in between
				}
				if strings.Contains(via, "other-task-same-state-file") {
					sigVia = "other-task-same-state-file"
				}
				out = append(out, e3Verdict{fmt.Sprintf("C04 | %s | prev=%s | via=%s | skipped", sh.Method, prev, sigVia),
					fmt.Sprintf("task reported up to date and skipped although its last attempt for this fingerprint was %q (operations in between: %s)", prev, via), props})
			}
		case observed != "skipped" && expectSkip && n > 0:
			props := []string{"C05"}
			if via != "none" && via != "other-task" {
				props = append(props, "C12")
			}
			why := "none"
			if len(st.changes) > 0 {
				why = uniqJoin(st.changes) // only changes that leave the fingerprint alone can be here
			}
			if inv.force || st.steps != nil && false {
				why += "+force"
			}
			out = append(out, e3Verdict{fmt.Sprintf("C05 | %s | idempotence | after=%s | prev=%s | via=%s | ran", sh.Method, why, st.prevOut, via),
				fmt.Sprintf("task ran %d command(s) although nothing relevant changed since its last successful run (file ops: %s; operations in between: %s)", n, why, via), props})
		}
		// update the record from the observation
		if observed == "killed" && n == 0 && (expectSkip || strings.HasPrefix(op.Arg, "fp.checked")) {
			// killed before any command was started (at the up-to-date check): not an attempt to run the commands
			st.since = append(st.since, "killed-before-attempt")
			return out
		}
		if observed == "skipped" && !maySkip {
			// an illegitimate skip does not create a success record
			observed = st.prevOut
			if !st.prevSet {
				observed = "never-run"
			}
		}
		if observed == "success" {
			st.othersWroteGen = false
		}
		st.prevSet, st.prevF, st.prevOut = true, st.fingerprint(), observed
		if during != nil {
			st.prevF = fNow // the attempt belongs to the fingerprint Task checked, not to the one the edit produced
		}
		if observed == "success" || observed == "skipped" {
			// the state Task could record as good (net changes are classified against it)
			st.goodSet, st.goodF = true, st.prevF
			st.prevView = st.view()
			if during != nil {
				st.prevView = viewBefore
			}
		}
		if !st.goodSet && st.prevView == nil {
			st.prevView = map[string]string{}
		}
		if st.lastByF == nil {
			st.lastByF = map[string]string{}
		}
		if observed != "skipped" && observed != "never-run" && observed != "killed-complete" {
			st.lastByF[fNow] = observed
		}
		st.since, st.changes = nil, nil
		if during != nil {
			st.lastEdit = *during
			st.files[during[0]] = during[2]
			rec.Op += " (edited " + during[0] + " during the run)"
			fileOp("edit")
		}
	}
	return out
}

func taskDirChanged(a, b h.Snapshot) bool {
	for _, l := range a.Diff(b) {
		if strings.Contains(l, ".task/") {
			return true
		}
	}
	return false
}

func stateFileTouched(a, b h.Snapshot, sh e3Shape) bool {
	// the state files the task under test itself wrote are recorded in st.ownState (learned from
	// the snapshots around its own plain invocations)
	return false
}

func classifyDiff(d []string) string {
	kinds := map[string]bool{}
	for _, l := range d {
		switch {
		case strings.Contains(l, ".task/checksum"):
			kinds["checksum-state"] = true
		case strings.Contains(l, ".task/timestamp"):
			kinds["timestamp-state"] = true
		case strings.Contains(l, ".task"):
			kinds["task-dir"] = true
		case strings.HasPrefix(l, "added"):
			kinds["file-added"] = true
		case strings.HasPrefix(l, "removed"):
			kinds["file-removed"] = true
		default:
			kinds["file-changed"] = true
		}
	}
	var ks []string
	for k := range kinds {
		ks = append(ks, k)
	}
	sort.Strings(ks)
	return strings.Join(ks, "+")
}

func uniqJoin(s []string) string {
	m := map[string]bool{}
	for _, x := range s {
		m[x] = true
	}
	var ks []string
	for k := range m {
		ks = append(ks, k)
	}
	sort.Strings(ks)
	return strings.Join(ks, "+")
}

func e3RandomShape(rng *rand.Rand) e3Shape {
	s := e3Shape{
		Method: []string{"checksum", "timestamp"}[rng.Intn(2)],
		Glob:   rng.Intn(len(e3Globs)),
		Shape:  []string{"plain", "plain", "deps", "label", "ns", "collide", "labelvar"}[rng.Intn(7)],
		Gen:    rng.Intn(3) == 0,
		Status: rng.Intn(4) == 0,
		Prompt: rng.Intn(5) == 0,
		NCmds:  2 + rng.Intn(3),
		Silent: []string{"", "", "", "task", "cmd"}[rng.Intn(5)],
	}
	s.IgnoreC1 = rng.Intn(6) == 0
	s.fixNames()
	return s
}

// failK picks the command that is made to fail (never one whose failure is ignored: an ignored failure is a success)
func (s e3Shape) failK(rng *rand.Rand) int {
	if s.IgnoreC1 && s.NCmds >= 2 {
		return 2 + rng.Intn(s.NCmds-1)
	}
	return 1 + rng.Intn(s.NCmds)
}

func (s e3Shape) withVar(args ...string) []string {
	if s.TaskVar != "" {
		return append(args, s.TaskVar)
	}
	return args
}

func (s *e3Shape) fixNames() {
	s.TaskName, s.Other = "tut", "other"
	s.TaskVar, s.OtherVar = "", ""
	switch s.Shape {
	case "labelvar":
		// one task, two instances told apart by a variable in the label and in the sources
		s.Other, s.TaskVar, s.OtherVar, s.Glob = "tut", "TARGET=src", "TARGET=other", 0
	case "ns":
		s.TaskName = "inc:tut"
	case "collide":
		s.TaskName, s.Other = "a-b", "a:b"
	}
}

func e3NewState(dir, bin string, s e3Shape, rng *rand.Rand) *e3State {
	st := &e3State{shape: s, dir: dir, bin: bin, files: map[string]string{}, statusOK: true}
	h.WriteTree(dir, s.render())
	g := e3Globs[s.Glob]
	// initial tree: at least two matched files, some unmatched
	nm := 0
	for _, f := range g.pool {
		if g.matched(f) && (nm < 2 || rng.Intn(2) == 0) {
			st.serial++
			st.write(f, fmt.Sprintf("content %d\n", st.serial))
			nm++
		} else if !g.matched(f) && rng.Intn(2) == 0 {
			st.serial++
			st.write(f, fmt.Sprintf("unmatched %d\n", st.serial))
		}
	}
	if s.Shape == "labelvar" {
		st.write("other/e.txt", "other instance\n")
	}
	if s.Shape == "depgen" {
		st.serial++
		st.write("src/a.txt", fmt.Sprintf("content %d\n", st.serial))
		st.write("spec.in", st.files["src/a.txt"])
	}
	if s.Status {
		os.WriteFile(filepath.Join(dir, "status.ok"), nil, 0o644)
	}
	return st
}

func (st *e3State) witness(v e3Verdict, seedInfo any) map[string]string {
	w := map[string]string{}
	for n, c := range st.shape.render() {
		w["project/"+n] = c
	}
	cj, _ := json.MarshalIndent(map[string]any{"signature": v.sig, "what": v.what, "shape": st.shape, "glob": e3Globs[st.shape.Glob].name,
		"history": st.steps, "case": seedInfo, "seed": h.Seed(), "tier": h.Tier(),
		"how_to_replay": "recreate project/, create the listed files, then perform the history's operations in order with VERIF_TRACE set"}, "", " ")
	w["case.json"] = string(cj)
	return w
}

var e3FileOps = []string{"edit", "edit", "revert", "redo", "touch", "touch", "add", "remove", "rename", "move", "edit-unmatched", "del-gen", "status-off", "status-on"}
var e3ROOps = []string{"run-dry", "run-status", "list-json", "list-all-json", "list", "list-all", "summary", "dry-withdir", "summary-withdir", "dry-parent", "dry-withsub", "status-withsub"}

func e3RandomHistory(rng *rand.Rand, s e3Shape, prop string, n int) []e3Op {
	var ops []e3Op
	for i := 0; i < n; i++ {
		r := rng.Float64()
		// per-property emphasis
		pFile, pRO, pBad := 0.35, 0.15, 0.15
		switch prop {
		case "C04":
			pFile, pRO, pBad = 0.2, 0.2, 0.3
		case "C05":
			pFile, pRO, pBad = 0.5, 0.05, 0.08
		case "C12":
			pFile, pRO, pBad = 0.2, 0.45, 0.1
		}
		switch {
		case r < pFile:
			ops = append(ops, e3Op{Kind: e3FileOps[rng.Intn(len(e3FileOps))]})
		case r < pFile+pRO:
			ops = append(ops, e3Op{Kind: e3ROOps[rng.Intn(len(e3ROOps))]})
		case r < pFile+pRO+pBad:
			switch rng.Intn(7) {
			case 6:
				ops = append(ops, e3Op{Kind: "run-force-fail", K: s.failK(rng)})
			case 0:
				ops = append(ops, e3Op{Kind: "run-fail", K: s.failK(rng)})
			case 1:
				pts := e3KillPoints(s)
				ops = append(ops, e3Op{Kind: "kill", Arg: pts[rng.Intn(len(pts))]})
			case 2:
				ops = append(ops, e3Op{Kind: "run-other"})
			case 3:
				ops = append(ops, e3Op{Kind: []string{"run-cancel", "run-cancel-force"}[rng.Intn(2)]})
			case 4:
				ops = append(ops, e3Op{Kind: "run-force"})
			case 5:
				ops = append(ops, e3Op{Kind: "run-edit"})
			}
		default:
			if s.Prompt && rng.Intn(2) == 0 {
				ops = append(ops, e3Op{Kind: "run-yes"})
			} else {
				ops = append(ops, e3Op{Kind: "run"})
			}
		}
	}
	return ops
}

// e3KillPoints lists every command boundary of the task under test as a SIGKILL point.
func e3KillPoints(s e3Shape) []string {
	name := "tut"
	if s.Shape == "collide" {
		name = "a-b"
	}
	pts := []string{"fp.checked:" + name}
	for k := 1; k <= s.NCmds; k++ {
		pts = append(pts, fmt.Sprintf("cmd.before:%s#%d", name, k), fmt.Sprintf("cmd.after:%s#%d", name, k))
	}
	return pts
}

func runE3(id string, start time.Time) int {
	scratch := h.Scratch(id)
	defer os.RemoveAll(scratch)
	bin, err := h.BuildCLI(scratch)
	if err != nil {
		fmt.Fprintln(os.Stderr, err)
		return 2
	}
	part := h.NewPartial()
	propNo := map[string]int64{"C04": 4, "C05": 5, "C12": 12}[id]
	type job struct {
		shape e3Shape
		ops   []e3Op
		tag   string
		idx   int
	}
	var jobs []job
	nRandom := h.Pick(220, 3000)
	for i := 0; i < nRandom; i++ {
		rng := h.Rng(propNo, int64(i))
		s := e3RandomShape(rng)
		jobs = append(jobs, job{s, e3RandomHistory(rng, s, id, 6+rng.Intn(9)), "random", i})
	}
	exhaustiveKill := false
	switch id {
	case "C04":
		// fault enumeration: every kill point of every body length, per method and shape:
		// (success | nothing) ; kill@p ; run  — and failing at every command k
		exhaustiveKill = true
		i := 0
		for _, method := range []string{"checksum", "timestamp"} {
			// a re-run for an unchanged fingerprint (because the status fails) is killed at each boundary; when the
			// status passes again the earlier success must not count
			ss := e3Shape{Method: method, Glob: 0, Shape: "plain", NCmds: 2, Status: true}
			ss.fixNames()
			for _, p := range e3KillPoints(ss) {
				jobs = append(jobs, job{ss, []e3Op{{Kind: "run"}, {Kind: "status-off"}, {Kind: "kill", Arg: p}, {Kind: "status-on"}, {Kind: "run"}, {Kind: "run"}}, "kill-same-fingerprint-enum", i})
				i++
			}
			for _, shape := range []string{"plain", "deps", "label", "ns", "collide", "labelvar"} {
				for n := 1; n <= h.Pick(3, 4); n++ {
					for _, gen := range []bool{false, true} {
						s := e3Shape{Method: method, Glob: 0, Shape: shape, NCmds: n, Gen: gen}
						s.fixNames()
						for _, p := range e3KillPoints(s) {
							for _, pre := range [][]e3Op{nil, {{Kind: "run"}, {Kind: "edit"}}} {
								ops := append(append([]e3Op{}, pre...), e3Op{Kind: "kill", Arg: p}, e3Op{Kind: "run"}, e3Op{Kind: "run"})
								jobs = append(jobs, job{s, ops, "kill-enum", i})
								i++
							}
						}
						for _, p := range e3KillPoints(s) {
							// an attempt for fingerprint B is killed; back at A a run succeeds (forced, or regenerating
							// a missing output); B again must not be taken for built
							mid := []e3Op{{Kind: "run-force"}}
							if gen {
								mid = []e3Op{{Kind: "del-gen"}, {Kind: "run"}}
							}
							ops := append([]e3Op{{Kind: "run"}, {Kind: "edit"}, {Kind: "kill", Arg: p}, {Kind: "revert"}}, mid...)
							ops = append(ops, e3Op{Kind: "redo"}, e3Op{Kind: "run"}, e3Op{Kind: "run"})
							jobs = append(jobs, job{s, ops, "kill-revert-enum", i})
							i++
						}
						jobs = append(jobs, job{s, []e3Op{{Kind: "run"}, {Kind: "run-cancel-force"}, {Kind: "run"}, {Kind: "run"}}, "cancel-enum", i})
						i++
						jobs = append(jobs, job{s, []e3Op{{Kind: "run"}, {Kind: "edit"}, {Kind: "run-cancel"}, {Kind: "run"}, {Kind: "run"}}, "cancel-enum", i})
						i++
						// the cancelled command carries ignore_error: being cancelled is not an ignorable failure
						si := s
						si.IgnoreC1 = true
						jobs = append(jobs, job{si, []e3Op{{Kind: "run"}, {Kind: "run-cancel-force"}, {Kind: "run"}, {Kind: "run"}}, "cancel-enum", i})
						i++
						jobs = append(jobs, job{si, []e3Op{{Kind: "run"}, {Kind: "edit"}, {Kind: "run-cancel"}, {Kind: "run"}, {Kind: "run"}}, "cancel-enum", i})
						i++
						for _, p := range e3KillPoints(si) {
							jobs = append(jobs, job{si, []e3Op{{Kind: "run"}, {Kind: "edit"}, {Kind: "kill", Arg: p}, {Kind: "run"}, {Kind: "run"}}, "kill-enum", i})
							i++
						}
						for k := 1; k <= n; k++ {
							jobs = append(jobs, job{s, []e3Op{{Kind: "run"}, {Kind: "run-force-fail", K: k}, {Kind: "run"}, {Kind: "run"}}, "fail-enum", i})
							i++
							if gen {
								jobs = append(jobs, job{s, []e3Op{{Kind: "run"}, {Kind: "del-gen"}, {Kind: "run-fail", K: k}, {Kind: "run"}, {Kind: "run"}}, "fail-enum", i})
								i++
							}
							ops := []e3Op{{Kind: "run-fail", K: k}, {Kind: "run"}, {Kind: "run"}}
							jobs = append(jobs, job{s, ops, "fail-enum", i})
							i++
							ops = []e3Op{{Kind: "run"}, {Kind: "run-fail", K: k}, {Kind: "run"}}
							jobs = append(jobs, job{s, append([]e3Op{{Kind: "run"}, {Kind: "edit"}}, ops[1:]...), "fail-enum", i})
							i++
						}
					}
				}
			}
		}
		// a forced attempt that is declined at the prompt (only --force brings the prompt on an up-to-date task) is the
		// last attempt for its fingerprint: the next plain run must execute (seeded change C04-r5-1)
		for _, method := range []string{"checksum", "timestamp"} {
			for _, shape := range []string{"plain", "deps", "label", "ns"} {
				for _, gen := range []bool{false, true} {
					s := e3Shape{Method: method, Glob: 0, Shape: shape, NCmds: 2, Gen: gen, Prompt: true}
					s.fixNames()
					jobs = append(jobs, job{s, []e3Op{{Kind: "run-yes"}, {Kind: "run-force-decline"}, {Kind: "run-yes"}, {Kind: "run-yes"}}, "decline-enum", i})
					i++
					jobs = append(jobs, job{s, []e3Op{{Kind: "run-yes"}, {Kind: "edit"}, {Kind: "run-yes"}, {Kind: "run-force-decline"}, {Kind: "run-yes"}, {Kind: "run-yes"}}, "decline-enum", i})
					i++
				}
			}
		}
	case "C05":
		// matrix: method x {sources, +generates, +status, all} x change kind x glob shape
		i := 0
		// two instances of one task (variable in label and sources) and tasks with colliding names, interleaved
		for _, method := range []string{"checksum", "timestamp"} {
			for _, shape := range []string{"labelvar", "collide", "label", "ns"} {
				s := e3Shape{Method: method, Glob: 0, Shape: shape, NCmds: 2}
				s.fixNames()
				ops := []e3Op{{Kind: "run"}, {Kind: "run-other"}, {Kind: "run"}, {Kind: "run-other"}, {Kind: "run"}, {Kind: "edit"}, {Kind: "run-other"}, {Kind: "run"}, {Kind: "run"}}
				jobs = append(jobs, job{s, ops, "interleaved-instances", i})
				i++
			}
		}
		// exclude entries of a task that lives in an included Taskfile (the merge copies the task): a file taken out by
		// an exclude stays out, whatever happens to it
		for _, method := range []string{"checksum", "timestamp"} {
			for _, shape := range []string{"ns", "plain", "label"} {
				s := e3Shape{Method: method, Glob: 2, Shape: shape, NCmds: 2}
				s.fixNames()
				for _, f := range []string{"src/x_1.txt", "src/x_2.txt"} {
					jobs = append(jobs, job{s, []e3Op{{Kind: "run"}, {Kind: "edit-unmatched", Arg: f}, {Kind: "run"}, {Kind: "edit-unmatched", Arg: f}, {Kind: "run"}, {Kind: "edit"}, {Kind: "run"}}, "excluded-file", i})
					i++
				}
			}
		}
		// a dependency that regenerates one of the task's own sources: the check and the record are about the sources
		// as they are after the dependencies ran
		for _, gen := range []bool{false, true} {
			s := e3Shape{Method: "checksum", Glob: 0, Shape: "depgen", NCmds: 2, Gen: gen}
			s.fixNames()
			jobs = append(jobs, job{s, []e3Op{{Kind: "run"}, {Kind: "run"}, {Kind: "edit-spec"}, {Kind: "run"}, {Kind: "run"}, {Kind: "edit-spec"}, {Kind: "run"}, {Kind: "run"}}, "dep-rewrites-source", i})
			i++
			jobs = append(jobs, job{s, []e3Op{{Kind: "edit-spec"}, {Kind: "run"}, {Kind: "run"}, {Kind: "edit"}, {Kind: "run"}, {Kind: "run"}, {Kind: "edit-spec"}, {Kind: "run-force"}, {Kind: "run"}}, "dep-rewrites-source", i})
			i++
		}
		// a source edited while the commands run (after the up-to-date check) must make the next run execute again
		for _, method := range []string{"checksum", "timestamp"} {
			for _, shape := range []string{"plain", "deps", "label", "ns", "collide", "labelvar"} {
				for n := 1; n <= 2; n++ {
					for _, gen := range []bool{false, true} {
						if method == "timestamp" && gen {
							continue
						}
						s := e3Shape{Method: method, Glob: 0, Shape: shape, NCmds: n, Gen: gen}
						s.fixNames()
						jobs = append(jobs, job{s, []e3Op{{Kind: "run-edit"}, {Kind: "run"}, {Kind: "run"}}, "edit-during-run", i})
						i++
						jobs = append(jobs, job{s, []e3Op{{Kind: "run"}, {Kind: "edit"}, {Kind: "run-edit"}, {Kind: "run"}, {Kind: "run"}}, "edit-during-run", i})
						i++
					}
				}
			}
		}
		for _, method := range []string{"checksum", "timestamp"} {
			for _, extra := range []struct{ gen, status bool }{{false, false}, {true, false}, {false, true}, {true, true}} {
				for _, change := range []string{"edit", "touch", "add", "remove", "rename", "move", "edit-unmatched", "del-gen", "status-off", "none"} {
					for g := range e3Globs {
						s := e3Shape{Method: method, Glob: g, Shape: "plain", NCmds: 2, Gen: extra.gen, Status: extra.status}
						s.fixNames()
						ops := []e3Op{{Kind: "run"}, {Kind: "run"}}
						if change == "move" {
							ops = []e3Op{{Kind: "free-move-target"}, {Kind: "run"}, {Kind: "run"}}
						}
						if change != "none" {
							ops = append(ops, e3Op{Kind: change})
						}
						ops = append(ops, e3Op{Kind: "run"}, e3Op{Kind: "run"}, e3Op{Kind: "run-force"}, e3Op{Kind: "run"})
						jobs = append(jobs, job{s, ops, "matrix", i})
						i++
					}
				}
			}
		}
	case "C12":
		// every read-only mode at every position of a fixed skeleton, for both methods and all shapes
		i := 0
		for _, method := range []string{"checksum", "timestamp"} {
			for _, ro := range []string{"dry-withsub", "status-withsub", "list-all-json", "summary"} {
				s := e3Shape{Method: method, Glob: 0, Shape: "plain", NCmds: 2}
				s.fixNames()
				jobs = append(jobs, job{s, []e3Op{{Kind: "setup-withsub"}, {Kind: "edit"}, {Kind: ro}, {Kind: "run"}, {Kind: "edit"}, {Kind: ro}, {Kind: "run"}}, "ro-failing-subcall", i})
				i++
			}
		}
		skeleton := []e3Op{{Kind: "run"}, {Kind: "edit"}, {Kind: "run-fail", K: 1}, {Kind: "run"}, {Kind: "edit"}, {Kind: "run"}}
		for _, method := range []string{"checksum", "timestamp"} {
			for _, shape := range []string{"plain", "deps", "label", "ns"} {
				for _, ro := range e3ROOps {
					for pos := 0; pos <= len(skeleton); pos++ {
						if !h.Thorough() && (i+int(h.Seed()))%2 != 0 {
							i++
							continue
						}
						s := e3Shape{Method: method, Glob: 0, Shape: shape, NCmds: 2, Gen: i%2 == 0, Status: i%3 == 0, Silent: []string{"", "task", "cmd"}[i%3]}
						s.fixNames()
						ops := append([]e3Op{}, skeleton[:pos]...)
						ops = append(ops, e3Op{Kind: ro})
						ops = append(ops, skeleton[pos:]...)
						ops = append(ops, e3Op{Kind: "run"})
						jobs = append(jobs, job{s, ops, "ro-positions", i})
						i++
					}
				}
			}
		}
	}
	h.Parallel(len(jobs), 16, func(j int) {
		jb := jobs[j]
		dir := filepath.Join(scratch, fmt.Sprintf("p%d", j))
		os.MkdirAll(dir, 0o755)
		defer os.RemoveAll(dir)
		rng := h.Rng(propNo, int64(jb.idx), 777)
		st := e3NewState(dir, bin, jb.shape, rng)
		nontrivial := false
		var hist []string
		reported := map[string]bool{}
		for _, op := range jb.ops {
			vs := st.step(op, rng, part)
			last := st.steps[len(st.steps)-1]
			hist = append(hist, last.Op+">"+last.Observed)
			if last.Observed != "" && last.Observed != "success" {
				nontrivial = true
			}
			for _, v := range vs {
				mine := false
				for _, p := range v.props {
					if p == id {
						mine = true
					}
				}
				if !mine {
					part.Count("violations_of_other_properties", 1)
					continue
				}
				// one signature per property view
				sig := v.sig
				if !strings.HasPrefix(sig, id+" ") {
					sig = id + " | as-" + sig
				}
				if reported[sig] {
					continue
				}
				reported[sig] = true
				part.Violation(sig, v.what, st.witness(v, map[string]any{"kind": jb.tag, "index": jb.idx}))
			}
		}
		if dbg := os.Getenv("VERIF_E3_DEBUG"); dbg != "" && strings.Contains(fmt.Sprintf("%s gen=%v %v", jb.tag, jb.shape.Gen, jb.ops), dbg) {
			b, _ := json.Marshal(st.steps)
			fmt.Printf("DEBUG %s %+v\n  %s\n", jb.tag, jb.shape, b)
		}
		part.Count("history_steps", int64(len(jb.ops)))
		part.Count("histories_"+jb.tag, 1)
		part.SetAdd("shapes", fmt.Sprintf("%s/%s/%s/gen=%v/status=%v/prompt=%v", jb.shape.Method, jb.shape.Shape, e3Globs[jb.shape.Glob].name, jb.shape.Gen, jb.shape.Status, jb.shape.Prompt))
		part.Eval(h.Hash(fmt.Sprint(jb.shape), strings.Join(hist, ";")), nontrivial)
		part.Sample(map[string]any{"shape": jb.shape, "glob": e3Globs[jb.shape.Glob].name, "history": st.steps, "kind": jb.tag}, 3)
	})
	level := "exploration"
	var exh *bool
	rule := map[string]string{
		"C04": "histories of file operations and CLI invocations (run, failing at command k, --force, prompt declined/--yes, SIGKILL at a command boundary via TASK_VERIF_KILL_AT, cancelled by a failing sibling, --dry, --status, --list[-all] --json, --summary, runs of another task with the same sources incl. colliding state-file names) on generated projects (method x glob shape x task shape x generates/status/prompt); monitor: a skip is legitimate only if the last plain attempt observed for the present fingerprint (computed by the harness from the files it wrote) ran all commands with exit 0 and generates exist. Enumerated: every command-boundary kill point (fp.checked, cmd.before#k, cmd.after#k) and every failing position for bodies of 1..3(4) commands x 2 methods x 5 shapes x generates on/off. A case is one history; non-trivial = it contains at least one observed outcome other than 'success' (skip, failure, kill, decline...); distinct by (shape, operation/outcome sequence).",
		"C05": "same engine, completeness direction: after a plain run, the next plain run must skip iff fingerprint, generates and status are unchanged and --force is absent; otherwise it must run. Matrix method x {sources, +generates, +status, both} x change kind {edit, touch, add, remove, rename, cross-dir move, unmatched edit, delete generates, status failing, none} x 6 glob/exclude shapes (all 480 cells in both tiers) plus random histories. checksum: touch must NOT run; timestamp: touch must run. Non-trivial/distinct as C04.",
		"C12": "same engine: before/after snapshots (name, size, sha256, mtime; .task included) around every read-only invocation (--dry, --status, --list, --list-all, each with --json, --summary) and an empty command trace; the continuation's run/skip must be what the monitor expects without the read-only step (the expectation is a function of plain invocations only). Every read-only mode at every position of a 6-step skeleton x 2 methods x 4 task shapes (all in thorough, half in quick) plus random histories. Non-trivial/distinct as C04.",
	}[id]
	if id == "C04" {
		level = "fault_enumeration"
		t := exhaustiveKill && part.Counters["kill_point_not_reached"] == 0
		exh = &t
	}
	if n := part.Counters["generated_project_does_not_load"]; n > 0 {
		fmt.Printf("BROKEN property=%s %d invocations met a generated project that does not load (harness defect)\n", id, n)
		defer os.Exit(2)
	}
	rep := h.Report{ID: id, Level: level, Rule: rule, Start: start, Exhaustive: exh, MinEvents: 100, EventsKey: "plain_invocations",
		Extra: map[string]any{"exhaustive_scope": "C04 only: command-boundary SIGKILL points and failing positions of the enumerated bodies; everything else is sampled"},
		Assumptions: []string{
			"the harness computes the fingerprint from the files it created itself (glob membership known by construction)",
			"file edits are stamped with a fine-grained time.Now() so that 'edited after the last run' is physically true (kernel mtimes are coarse)",
			"kill points inside a command (mid-syscall) are not enumerated",
		}}
	return h.Finish(rep, part)
}
