// Command p19 runs the C19 check (arguments reach their destination verbatim) stand-alone.
package main

import (
	"os"
	"time"

	"github.com/go-task/task/v3/verifh/p19"
)

func main() {
	id := "C19"
	if len(os.Args) > 1 {
		id = os.Args[1]
	}
	os.Exit(p19.Run(id, time.Now()))
}
