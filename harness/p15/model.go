package p15

import (
	"strings"
)

// T is one task of a generated name table.
type T struct {
	ID      int      `json:"id"`      // origin marker printed by the task's only command
	Name    string   `json:"name"`    // name as written in its file
	Aliases []string `json:"aliases"` // aliases as written in its file
}

// Table is a root Taskfile plus at most one included Taskfile.
type Table struct {
	NS            string `json:"namespace"` // "" = no include
	NS2           string `json:"namespace2,omitempty"` // the same included file a second time, under this namespace
	Root          []T    `json:"root"`
	Inc           []T    `json:"included"`
	IncludesFirst bool   `json:"includes_key_first"`
}

// M is a task of the merged table as the statement sees it.
type M struct {
	ID       int
	Name     string
	Aliases  []string
	Included bool
}

// Merged is the table in Taskfile order: the root file's tasks, then the
// included file's tasks under their namespace.
func (tb *Table) Merged() []M {
	var out []M
	for _, t := range tb.Root {
		out = append(out, M{ID: t.ID, Name: t.Name, Aliases: t.Aliases})
	}
	for _, t := range tb.Inc {
		m := M{ID: t.ID, Name: tb.NS + ":" + t.Name, Included: true}
		for _, a := range t.Aliases {
			m.Aliases = append(m.Aliases, tb.NS+":"+a)
		}
		out = append(out, m)
	}
	if tb.NS2 != "" {
		for _, t := range tb.Inc {
			m := M{ID: t.ID, Name: tb.NS2 + ":" + t.Name, Included: true}
			for _, a := range t.Aliases {
				m.Aliases = append(m.Aliases, tb.NS2+":"+a)
			}
			out = append(out, m)
		}
	}
	return out
}

// literalMatch reports whether request r matches pattern p when '*' (any,
// possibly empty, substring) is the only special character. No regexp.
func literalMatch(p, r string) bool {
	parts := strings.Split(p, "*")
	if len(parts) == 1 {
		return p == r
	}
	first, last := parts[0], parts[len(parts)-1]
	if len(r) < len(first)+len(last) || !strings.HasPrefix(r, first) || !strings.HasSuffix(r, last) {
		return false
	}
	rest := r[len(first) : len(r)-len(last)]
	for _, mid := range parts[1 : len(parts)-1] {
		i := strings.Index(rest, mid) // leftmost is complete for existence
		if i < 0 {
			return false
		}
		rest = rest[i+len(mid):]
	}
	return true
}

// reconstruct substitutes ms for the '*'s of p; ok=false if the count differs.
func reconstruct(p string, ms []string) (string, bool) {
	parts := strings.Split(p, "*")
	if len(ms) != len(parts)-1 {
		return "", false
	}
	var b strings.Builder
	for i, part := range parts {
		b.WriteString(part)
		if i < len(ms) {
			b.WriteString(ms[i])
		}
	}
	return b.String(), true
}

// Verdict kinds of the model.
const (
	KExact = "exact"
	KWild  = "wildcard"
	KAlias = "alias"
	K203   = "err203"
	K200   = "err200"
)

// Expect is the model's answer for one request.
type Expect struct {
	Kind       string `json:"kind"`
	ID         int    `json:"id"`   // task expected to run (-1 for errors)
	Name       string `json:"name"` // its merged name
	Candidates int    `json:"candidates"`
	// decisions that mattered
	ExactOverWild   bool   `json:"exact_over_wildcard,omitempty"`
	ExactOverAlias  bool   `json:"exact_over_alias,omitempty"`
	WildOverAlias   bool   `json:"wildcard_over_alias,omitempty"`
	FirstOfWilds    int    `json:"wildcards_matching,omitempty"`
	ParentFirst     bool   `json:"parent_before_included,omitempty"`
	SuggestDemanded string `json:"suggestion_demanded,omitempty"`
}

func contains(l []string, s string) bool {
	for _, x := range l {
		if x == s {
			return true
		}
	}
	return false
}

// Resolve is the reference semantics of the statement.
func Resolve(ms []M, r string) Expect {
	var exact *M
	var wilds, aliased []*M
	for i := range ms {
		m := &ms[i]
		if m.Name == r && exact == nil {
			exact = m
		}
		if strings.Contains(m.Name, "*") && m.Name != r && literalMatch(m.Name, r) {
			wilds = append(wilds, m)
		}
		if contains(m.Aliases, r) {
			aliased = append(aliased, m)
		}
	}
	e := Expect{ID: -1}
	if exact != nil {
		e.Candidates++
	}
	e.Candidates += len(wilds) + len(aliased)
	switch {
	case exact != nil:
		e.Kind, e.ID, e.Name = KExact, exact.ID, exact.Name
		e.ExactOverWild = len(wilds) > 0
		e.ExactOverAlias = len(aliased) > 0
	case len(wilds) > 0:
		e.Kind, e.ID, e.Name = KWild, wilds[0].ID, wilds[0].Name
		e.WildOverAlias = len(aliased) > 0
		e.FirstOfWilds = len(wilds)
		if !wilds[0].Included {
			for _, w := range wilds[1:] {
				if w.Included {
					e.ParentFirst = true
				}
			}
		}
	case len(aliased) == 1:
		e.Kind, e.ID, e.Name = KAlias, aliased[0].ID, aliased[0].Name
	case len(aliased) > 1:
		e.Kind = K203
	default:
		e.Kind = K200
		e.SuggestDemanded = demandedSuggestion(ms, r)
	}
	return e
}

// lev is the Levenshtein distance (insert, delete, substitute).
func lev(a, b string) int {
	prev := make([]int, len(b)+1)
	cur := make([]int, len(b)+1)
	for j := range prev {
		prev[j] = j
	}
	for i := 1; i <= len(a); i++ {
		cur[0] = i
		for j := 1; j <= len(b); j++ {
			c := 1
			if a[i-1] == b[j-1] {
				c = 0
			}
			cur[j] = min(prev[j]+1, cur[j-1]+1, prev[j-1]+c)
		}
		prev, cur = cur, prev
	}
	return prev[len(b)]
}

// osa is the optimal-string-alignment distance (Levenshtein + adjacent
// transposition); osa <= lev, so "osa > 2" is the stronger statement.
func osa(a, b string) int {
	d := make([][]int, len(a)+1)
	for i := range d {
		d[i] = make([]int, len(b)+1)
		d[i][0] = i
	}
	for j := 0; j <= len(b); j++ {
		d[0][j] = j
	}
	for i := 1; i <= len(a); i++ {
		for j := 1; j <= len(b); j++ {
			c := 1
			if a[i-1] == b[j-1] {
				c = 0
			}
			d[i][j] = min(d[i-1][j]+1, d[i][j-1]+1, d[i-1][j-1]+c)
			if i > 1 && j > 1 && a[i-1] == b[j-2] && a[i-2] == b[j-1] {
				d[i][j] = min(d[i][j], d[i-2][j-2]+1)
			}
		}
	}
	return d[len(a)][len(b)]
}

// demandedSuggestion returns the word the oracle insists on being suggested:
// exactly one existing name/alias at edit distance 1 from r and every other one
// at distance > 2. Everything fuzzier is unconstrained. A closest word that is
// itself a wildcard pattern is not demanded (the statement says "task name";
// whether a pattern is a sensible suggestion is not stated).
func demandedSuggestion(ms []M, r string) string {
	seen := map[string]bool{}
	var words []string
	for _, m := range ms {
		for _, w := range append([]string{m.Name}, m.Aliases...) {
			if !seen[w] {
				seen[w] = true
				words = append(words, w)
			}
		}
	}
	var near []string
	for _, w := range words {
		if lev(r, w) == 1 {
			near = append(near, w)
		}
	}
	if len(near) != 1 {
		return ""
	}
	for _, w := range words {
		if w != near[0] && osa(r, w) <= 2 {
			return ""
		}
	}
	if strings.Contains(near[0], "*") || r == "" {
		return ""
	}
	return near[0]
}
