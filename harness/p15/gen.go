package p15

import (
	"fmt"
	"math/rand"
	"strconv"
	"strings"
)

// the alphabet of the property (weights favour collisions and overlaps)
var letters = []struct {
	c string
	w int
}{
	{"a", 7}, {"b", 6}, {":", 3}, {".", 3}, {"-", 2}, {"(", 2}, {")", 1}, {"[", 1}, {"+", 2}, {"?", 2},
	{"^", 1}, {"$", 1}, {"|", 1}, {"\\", 1}, {"{", 1}, {" ", 1},
}

var totalW = func() int {
	n := 0
	for _, l := range letters {
		n += l.w
	}
	return n
}()

const metaChars = `.()[+?^$|\{`

func hasMeta(s string) bool { return strings.ContainsAny(s, metaChars) }

func letter(r *rand.Rand) string {
	x := r.Intn(totalW)
	for _, l := range letters {
		if x < l.w {
			return l.c
		}
		x -= l.w
	}
	return "a"
}

func word(r *rand.Rand, minLen, maxLen int) string {
	n := minLen + r.Intn(maxLen-minLen+1)
	var b strings.Builder
	for i := 0; i < n; i++ {
		b.WriteString(letter(r))
	}
	return b.String()
}

func insertAt(s string, i int, x string) string { return s[:i] + x + s[i:] }

func stars(s string) int { return strings.Count(s, "*") }

// freshName is a random name with 0-3 '*'.
func freshName(r *rand.Rand) string {
	s := word(r, 1, 4)
	k := [...]int{0, 0, 0, 0, 1, 1, 1, 2, 2, 3}[r.Intn(10)]
	for i := 0; i < k; i++ {
		s = insertAt(s, r.Intn(len(s)+1), "*")
	}
	return s
}

// derive makes a name that overlaps with an existing one.
func derive(r *rand.Rand, from string) string {
	s := from
	switch r.Intn(8) {
	case 0: // a character becomes a star
		if len(s) > 0 && stars(s) < 3 {
			i := r.Intn(len(s))
			s = s[:i] + "*" + s[i+1:]
		}
	case 1: // a star becomes text
		if i := strings.Index(s, "*"); i >= 0 {
			s = s[:i] + word(r, 0, 2) + s[i+1:]
		}
	case 2: // insert a character
		s = insertAt(s, r.Intn(len(s)+1), letter(r))
	case 3: // substitute a character
		if len(s) > 0 {
			i := r.Intn(len(s))
			s = s[:i] + letter(r) + s[i+1:]
		}
	case 4: // trailing star
		if stars(s) < 3 {
			s += "*"
		}
	case 5: // leading star
		if stars(s) < 3 {
			s = "*" + s
		}
	case 6: // prefix + star
		if len(s) > 1 {
			s = s[:1+r.Intn(len(s)-1)]
		}
		if stars(s) < 3 {
			s += "*"
		}
	case 7: // a regex metacharacter after some character
		m := string(metaChars[r.Intn(len(metaChars))])
		s = insertAt(s, r.Intn(len(s)+1), m)
	}
	for stars(s) > 3 {
		i := strings.Index(s, "*")
		s = s[:i] + s[i+1:]
	}
	return s
}

// instantiate fills the stars of a pattern.
func instantiate(r *rand.Rand, p string) string {
	parts := strings.Split(p, "*")
	var b strings.Builder
	for i, part := range parts {
		b.WriteString(part)
		if i < len(parts)-1 {
			switch r.Intn(6) {
			case 0: // empty
			case 1:
				b.WriteString("*")
			default:
				b.WriteString(word(r, 1, 3))
			}
		}
	}
	return b.String()
}

// nearMiss edits s d times (each edit is an insertion, deletion or substitution).
func nearMiss(r *rand.Rand, s string, d int) string {
	for k := 0; k < d; k++ {
		switch op := r.Intn(3); {
		case op == 0 || len(s) == 0:
			s = insertAt(s, r.Intn(len(s)+1), letter(r))
		case op == 1:
			i := r.Intn(len(s))
			s = s[:i] + s[i+1:]
		default:
			i := r.Intn(len(s))
			s = s[:i] + letter(r) + s[i+1:]
		}
	}
	return s
}

var namespaces = []string{"b", "a", "ab", "a.b", "b-a"}

// GenTable generates one name table. Within a file names are distinct and
// non-empty; an included file's names and aliases do not start with ':' (Task
// gives a leading ':' the meaning "root namespace", which the statement does not
// talk about) and the merged names are distinct (a clash is a setup error).
func GenTable(r *rand.Rand) *Table {
	tb := &Table{IncludesFirst: r.Intn(2) == 0}
	nRoot := 2 + r.Intn(5)
	nInc := 0
	if r.Intn(5) < 2 {
		tb.NS = namespaces[r.Intn(len(namespaces))]
		nInc = 1 + r.Intn(3)
		if nRoot+nInc > 8 {
			nRoot = 8 - nInc
		}
	} else if nRoot < 3 {
		nRoot = 3
	}
	id := 0
	merged := map[string]bool{}
	var all []string // merged names so far
	newName := func(included bool) string {
		for try := 0; ; try++ {
			var s string
			if len(all) > 0 && r.Intn(2) == 0 {
				src := all[r.Intn(len(all))]
				if included {
					// derive from the local part of a name where possible
					src = strings.TrimPrefix(src, tb.NS+":")
				}
				s = derive(r, src)
			} else if !included && tb.NS != "" && r.Intn(3) == 0 {
				// root patterns that overlap with the namespace
				s = []string{tb.NS + ":*", "*:*", "*", tb.NS + "*", "*:" + word(r, 1, 2), tb.NS + ":" + word(r, 1, 2)}[r.Intn(6)]
			} else if included && r.Intn(3) == 0 {
				s = []string{"*", "a*", "*b", word(r, 1, 2), "*" + word(r, 1, 1) + "*"}[r.Intn(5)]
			} else {
				s = freshName(r)
			}
			if s == "" || s == "default" {
				continue
			}
			m := s
			if included {
				if strings.HasPrefix(s, ":") {
					continue
				}
				m = tb.NS + ":" + s
			}
			if merged[m] {
				continue
			}
			merged[m] = true
			all = append(all, m)
			return s
		}
	}
	for i := 0; i < nRoot; i++ {
		tb.Root = append(tb.Root, T{ID: id, Name: newName(false)})
		id++
	}
	for i := 0; i < nInc; i++ {
		tb.Inc = append(tb.Inc, T{ID: id, Name: newName(true)})
		id++
	}
	// aliases
	var allAliases []string
	var patterns []string
	for _, n := range all {
		if strings.Contains(n, "*") {
			patterns = append(patterns, n)
		}
	}
	alias := func(included bool) string {
		for {
			var s string
			switch x := r.Intn(20); {
			case x < 7:
				s = word(r, 1, 3)
			case x < 11 && len(allAliases) > 0: // collide with another alias
				s = allAliases[r.Intn(len(allAliases))]
			case x < 14: // collide with a name
				s = all[r.Intn(len(all))]
			case x < 17 && len(patterns) > 0: // an instance of a pattern
				s = instantiate(r, patterns[r.Intn(len(patterns))])
			case x < 18: // looks like a pattern
				s = derive(r, word(r, 1, 2)+"*")
			default:
				s = derive(r, all[r.Intn(len(all))])
			}
			if included {
				// written in the included file, it gets the namespace prefix
				s = strings.TrimPrefix(s, tb.NS+":")
				if strings.HasPrefix(s, ":") {
					continue
				}
			}
			if s == "" {
				continue
			}
			return s
		}
	}
	give := func(ts []T, included bool) {
		for i := range ts {
			k := [...]int{0, 0, 1, 1, 1, 2}[r.Intn(6)]
			for j := 0; j < k; j++ {
				a := alias(included)
				if contains(ts[i].Aliases, a) {
					continue
				}
				ts[i].Aliases = append(ts[i].Aliases, a)
				if included {
					allAliases = append(allAliases, tb.NS+":"+a)
				} else {
					allAliases = append(allAliases, a)
				}
			}
		}
	}
	give(tb.Root, false)
	give(tb.Inc, true)
	if tb.NS != "" && r.Intn(2) == 0 {
		// the included file a second time under an unrelated namespace (no name over the table's alphabet can
		// contain it): every copy of a wildcard task matches under its own namespace only
		tb.NS2 = "zz9"
	}
	return tb
}

// GenRequests derives the request list of a table.
func GenRequests(r *rand.Rand, tb *Table) []string {
	ms := tb.Merged()
	var out []string
	seen := map[string]bool{}
	add := func(s string) {
		// a leading '-' is a flag for the CLI's argument parser, '=' an assignment
		if strings.HasPrefix(s, "-") || strings.Contains(s, "=") || seen[s] {
			return
		}
		seen[s] = true
		out = append(out, s)
	}
	var words []string
	for _, m := range ms {
		add(m.Name)
		words = append(words, m.Name)
		for _, a := range m.Aliases {
			add(a)
			words = append(words, a)
		}
	}
	for _, m := range ms {
		if strings.Contains(m.Name, "*") {
			add(instantiate(r, m.Name))
			add(instantiate(r, m.Name))
			if r.Intn(4) == 0 {
				// '{' is in the alphabet: a request may look like a template action
				add(strings.Replace(m.Name, "*", "{{"+word(r, 0, 2), 1))
			}
		}
		if hasMeta(m.Name) {
			// what a regexp reading of the name would accept
			add(nearMiss(r, m.Name, 1))
			add(nearMiss(r, strings.ReplaceAll(m.Name, "*", word(r, 0, 2)), 1))
			if i := strings.IndexAny(m.Name, "+?"); i > 0 {
				add(strings.ReplaceAll(m.Name[:i]+m.Name[i+1:], "*", ""))
				add(strings.ReplaceAll(m.Name[:i-1]+m.Name[i+1:], "*", ""))
			}
			if i := strings.Index(m.Name, "."); i >= 0 {
				add(strings.ReplaceAll(m.Name[:i]+letter(r)+m.Name[i+1:], "*", word(r, 0, 2)))
			}
			if i := strings.Index(m.Name, "|"); i >= 0 {
				add(strings.ReplaceAll(m.Name[:i], "*", "") + word(r, 1, 2))
			}
			if strings.HasSuffix(m.Name, "$") || strings.HasPrefix(m.Name, "^") {
				add(strings.ReplaceAll(strings.Trim(m.Name, "^$"), "*", word(r, 0, 1)))
			}
		}
	}
	for k := 0; k < 4; k++ {
		add(nearMiss(r, words[r.Intn(len(words))], 1))
	}
	add(nearMiss(r, words[r.Intn(len(words))], 3))
	add(word(r, 1, 4))
	add(word(r, 1, 4))
	if tb.NS != "" {
		add(tb.NS + ":" + word(r, 1, 3))
	}
	if r.Intn(10) == 0 {
		add("")
	}
	return out
}

func yq(s string) string {
	// YAML double-quoted scalar; all our characters are printable ASCII
	var b strings.Builder
	b.WriteByte('"')
	for _, c := range []byte(s) {
		switch c {
		case '"':
			b.WriteString(`\"`)
		case '\\':
			b.WriteString(`\\`)
		default:
			if c < 0x20 || c > 0x7e {
				b.WriteString(`\x` + strconv.FormatInt(int64(c)+0x100, 16)[1:])
			} else {
				b.WriteByte(c)
			}
		}
	}
	b.WriteByte('"')
	return b.String()
}

func renderTasks(ts []T) string {
	var b strings.Builder
	b.WriteString("tasks:\n")
	for _, t := range ts {
		fmt.Fprintf(&b, "  %s:\n", yq(t.Name))
		if len(t.Aliases) > 0 {
			var qs []string
			for _, a := range t.Aliases {
				qs = append(qs, yq(a))
			}
			fmt.Fprintf(&b, "    aliases: [%s]\n", strings.Join(qs, ", "))
		}
		fmt.Fprintf(&b, "    cmds:\n      - 'echo ORG%d{{range .MATCH}} m-{{b64enc .}}{{end}}'\n", t.ID)
	}
	return b.String()
}

// renderRoot renders the root Taskfile with extra task definitions appended to
// its tasks section.
func (tb *Table) renderRoot(extraTasks string) string {
	var b strings.Builder
	b.WriteString("version: '3'\nsilent: true\n")
	inc := ""
	if tb.NS != "" {
		inc = fmt.Sprintf("includes:\n  %s:\n    taskfile: ./inc.yml\n", yq(tb.NS))
		if tb.NS2 != "" {
			inc += fmt.Sprintf("  %s:\n    taskfile: ./inc.yml\n", yq(tb.NS2))
		}
	}
	if tb.IncludesFirst {
		b.WriteString(inc)
		b.WriteString(renderTasks(tb.Root))
		b.WriteString(extraTasks)
	} else {
		b.WriteString(renderTasks(tb.Root))
		b.WriteString(extraTasks)
		b.WriteString(inc)
	}
	return b.String()
}

// Render returns the project files of a table.
func (tb *Table) Render() map[string]string {
	files := map[string]string{"Taskfile.yml": tb.renderRoot("")}
	if tb.NS != "" {
		files["inc.yml"] = "version: '3'\n" + renderTasks(tb.Inc)
	}
	return files
}
