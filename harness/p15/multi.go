package p15

import (
	"encoding/json"
	"fmt"
	"math/rand"
	"strconv"
	"strings"
	"time"

	"github.com/go-task/task/v3/verifh/h"
	"github.com/go-task/task/v3/verifh/p16"
)

// single is a request whose single run was judged and held: the reference for
// the same request made several times within one run.
type single struct {
	Line string // the probe line it printed (origin marker + MATCH items)
	Exp  Expect
}

type multiRun struct {
	Form   string   // cli-twice | cli-r1-r2-r1 | cmds-twice | dep+cmd | for-loop | cmds-r1-r2-r1
	Args   []string // command line
	Calls  []string // the requests made, in the order their output is expected
	Expect []string // expected probe lines
}

// renderWrappers renders wrapper tasks (appended to the root file's tasks).
func renderWrappers(ws [][2]string) string {
	var b strings.Builder
	for _, w := range ws {
		fmt.Fprintf(&b, "  %s:\n%s", yq(w[0]), w[1])
	}
	return b.String()
}

// multi runs requests several times within one invocation: every call must
// run the task and print the MATCH a single request of that name does.
func multi(part *h.Partial, rng *rand.Rand, tb *Table, files map[string]string, dir, bin, scratch string, singles map[string]single, order []string, ti int, fileHash string) {
	var wild, other []string
	for _, r := range order {
		s, ok := singles[r]
		if !ok || r == "" || strings.Contains(r, "{{") || strings.HasPrefix(r, ":") {
			// '{{' is a known finding of its own; a leading ':' means "root namespace" in a task call
			continue
		}
		if s.Exp.Kind == KWild {
			wild = append(wild, r)
		} else {
			other = append(other, r)
		}
	}
	rng.Shuffle(len(wild), func(i, j int) { wild[i], wild[j] = wild[j], wild[i] })
	rng.Shuffle(len(other), func(i, j int) { other[i], other[j] = other[j], other[i] })
	var chosen []string
	chosen = append(chosen, wild[:min(3, len(wild))]...)
	chosen = append(chosen, other[:min(1, len(other))]...)
	if len(chosen) == 0 {
		return
	}
	var runs []multiRun
	var wrappers [][2]string
	wrap := func(form, body string, calls ...string) {
		name := "WRAPPER-" + strconv.Itoa(len(wrappers))
		wrappers = append(wrappers, [2]string{name, body})
		var exp []string
		for _, c := range calls {
			exp = append(exp, singles[c].Line)
		}
		runs = append(runs, multiRun{Form: form, Args: []string{"-t", "Multi.yml", name}, Calls: calls, Expect: exp})
	}
	for _, r := range chosen {
		l := singles[r].Line
		runs = append(runs, multiRun{Form: "cli-twice", Args: []string{r, r}, Calls: []string{r, r}, Expect: []string{l, l}})
		q := yq(r)
		switch rng.Intn(3) {
		case 0:
			wrap("cmds-twice", fmt.Sprintf("    cmds:\n      - task: %s\n      - task: %s\n", q, q), r, r)
		case 1:
			wrap("dep+cmd", fmt.Sprintf("    deps:\n      - task: %s\n    cmds:\n      - task: %s\n", q, q), r, r)
		default:
			wrap("for-loop", fmt.Sprintf("    cmds:\n      - for: [x, y]\n        task: %s\n", q), r, r)
		}
	}
	// r1, r2, r1 where both are instances of the same pattern
	byTask := map[int][]string{}
	for _, r := range wild {
		byTask[singles[r].Exp.ID] = append(byTask[singles[r].Exp.ID], r)
	}
	for _, r1 := range wild {
		if g := byTask[singles[r1].Exp.ID]; len(g) >= 2 {
			r2 := g[0]
			if r2 == r1 {
				r2 = g[1]
			}
			l1, l2 := singles[r1].Line, singles[r2].Line
			runs = append(runs, multiRun{Form: "cli-r1-r2-r1", Args: []string{r1, r2, r1}, Calls: []string{r1, r2, r1}, Expect: []string{l1, l2, l1}})
			wrap("cmds-r1-r2-r1", fmt.Sprintf("    cmds:\n      - task: %s\n      - task: %s\n      - task: %s\n", yq(r1), yq(r2), yq(r1)), r1, r2, r1)
			break
		}
	}
	multiFile := tb.renderRoot(renderWrappers(wrappers))
	if err := h.WriteTree(dir, map[string]string{"Multi.yml": multiFile}); err != nil {
		part.Inconc("write: " + err.Error())
		return
	}
	for _, m := range runs {
		res := p16.Proc{Bin: bin, Dir: dir, Args: m.Args, Timeout: 120 * time.Second, TmpDir: scratch}.Run()
		part.Count("cli_runs", 1)
		part.Count("multi_runs", 1)
		part.Count("multi_form_"+m.Form, 1)
		if res.TimedOut {
			part.Inconc(fmt.Sprintf("table %d multi %s %q: watchdog", ti, m.Form, m.Args))
			continue
		}
		part.Eval(h.Hash(fileHash, "multi", m.Form, strings.Join(m.Calls, "\x00")), true)
		witness := func() map[string]string {
			w := map[string]string{"Multi.yml": multiFile}
			for k, v := range files {
				w[k] = v
			}
			cj, _ := json.MarshalIndent(map[string]any{
				"seed": h.Seed(), "tier": h.Tier(), "table_index": ti, "table": tb, "form": m.Form, "argv": append([]string{"task"}, m.Args...),
				"calls": m.Calls, "expected_lines": m.Expect, "observed": obs{Exit: res.Exit, Signal: res.Signal, Stdout: h.Truncate(res.Stdout, 2000), Stderr: h.Truncate(res.Stderr, 6000)},
			}, "", " ")
			w["case.json"] = string(cj)
			return w
		}
		if c, ok := p16.ParseCrash(res.Stderr); ok || res.Crashed() {
			site := "signal " + res.Signal
			if ok {
				site = c.Kind + " " + c.Site()
			}
			part.Violation("C15 | crash | "+site, fmt.Sprintf("%s %q crashed Task (%s)", m.Form, m.Args, c.Msg), witness())
			continue
		}
		if res.Exit >= 100 && res.Exit <= 110 {
			part.Count("setup_rejected_not_judged", 1)
			continue
		}
		part.Count("multi_judged", 1)
		var lines []string
		for _, l := range strings.Split(res.Stdout, "\n") {
			if l = strings.TrimSpace(l); l != "" {
				lines = append(lines, l)
			}
		}
		same := res.Exit == 0 && len(lines) == len(m.Expect)
		firstDiff := -1
		for k := 0; k < len(lines) && k < len(m.Expect); k++ {
			if lines[k] != m.Expect[k] {
				same = false
				if firstDiff < 0 {
					firstDiff = k
				}
			}
		}
		if same {
			continue
		}
		kind := ""
		switch {
		case firstDiff >= 0:
			which := "later"
			if firstDiff == 0 {
				which = "first"
			}
			if strings.Fields(lines[firstDiff])[0] == strings.Fields(m.Expect[firstDiff])[0] {
				kind = which + "-call-MATCH-differs-from-single-request"
			} else {
				kind = which + "-call-runs-another-task"
			}
		case res.Exit != 0:
			kind = "exit=" + strconv.Itoa(res.Exit)
		default:
			kind = "number-of-calls-run-differs"
		}
		part.Violation("C15 | repeated-request | "+kind,
			fmt.Sprintf("%s: task %q: expected the probe lines %q (what each request prints when made alone); observed exit %d, lines %q, stderr %s", m.Form, m.Args, m.Expect, res.Exit, lines, h.Truncate(firstLine(res.Stderr), 160)), witness())
	}
}
