// Package p15 checks property C15 (task name resolution) by black-box CLI runs
// over generated name tables judged by a literal (regexp-free) reference model.
package p15

import (
	"encoding/base64"
	"encoding/json"
	"fmt"
	"os"
	"path/filepath"
	"regexp"
	"strconv"
	"strings"
	"time"

	"github.com/go-task/task/v3/verifh/h"
	"github.com/go-task/task/v3/verifh/p16"
)

const rule = "tables: seeded random name tables of 3-8 tasks over the alphabet {a b : . * - ( ) [ + ? ^ $ | \\ { space} (names YAML double-quoted, 0-3 '*' per name, half of the names derived from an existing one so that patterns overlap; 0-2 aliases per task colliding with names / pattern instances / each other; 40% of the tables with one included file under a namespace). requests: every merged name, every alias, 2 instantiations per pattern (1 in 4 patterns also with a '{{' filling), what a regexp reading of a name would accept, near misses at edit distance 1 and 3, random strings; then repeated requests within one invocation: per table up to 4 requests that held alone are made twice on the command line and twice from a wrapper task (two task: commands, a dep followed by a command, a for loop), and r1 r2 r1 for two instances of one pattern (command line and wrapper) - every call must print the probe line the request prints alone. One CLI run per (table, request) or per repeated-request form; the task's only command prints its origin marker and base64 of each .MATCH item. oracle: literal model exact > first literally matching wildcard in Taskfile order (root file first) > unique alias > 203 (several tasks carry the alias) > 200 (nothing may run; a suggestion is demanded only if exactly one name/alias is at Levenshtein distance 1 and all others at OSA distance > 2 and it is not a pattern); on a wildcard match the MATCH items must be as many as the '*'s and rebuild the request when substituted; Go panic / signal = violation. A case is one (table, request); non-trivial = the model had >= 2 candidates (exact, literally matching patterns, alias holders) or the request or the chosen name contains a regex metacharacter or an error code is expected; distinct by hash(project files, request). Exit codes 100-110 (setup rejected the table) are counted and not judged."

type obs struct {
	Exit   int      `json:"exit"`
	Signal string   `json:"signal,omitempty"`
	Ran    []int    `json:"ran"`
	Match  []string `json:"match"`
	Stdout string   `json:"stdout"`
	Stderr string   `json:"stderr"`
}

func parseOut(stdout string) (ran []int, match []string, bad bool) {
	for _, line := range strings.Split(stdout, "\n") {
		i := strings.Index(line, "ORG")
		if i < 0 {
			continue
		}
		f := strings.Fields(line[i:])
		id, err := strconv.Atoi(strings.TrimPrefix(f[0], "ORG"))
		if err != nil {
			bad = true
			continue
		}
		ran = append(ran, id)
		for _, m := range f[1:] {
			if !strings.HasPrefix(m, "m-") {
				bad = true
				continue
			}
			b, err := base64.StdEncoding.DecodeString(m[2:])
			if err != nil {
				bad = true
				continue
			}
			match = append(match, string(b))
		}
	}
	return
}

// Run is the check's entry point.
func Run(id string, start time.Time) int {
	scratch := h.Scratch(id)
	defer os.RemoveAll(scratch)
	bin, err := h.BuildCLI(scratch)
	if err != nil {
		fmt.Fprintln(os.Stderr, err)
		return 2
	}
	part := h.NewPartial()
	nTables := h.Pick(250, 4000)
	h.Parallel(nTables, 16, func(ti int) {
		rng := h.Rng(15, int64(ti))
		tb := GenTable(rng)
		reqs := GenRequests(rng, tb)
		files := tb.Render()
		dir := filepath.Join(scratch, fmt.Sprintf("t%d", ti))
		if err := h.WriteTree(dir, files); err != nil {
			part.Inconc("write: " + err.Error())
			return
		}
		defer os.RemoveAll(dir)
		part.Count("tables", 1)
		if tb.NS != "" {
			part.Count("tables_with_include", 1)
		}
		ms := tb.Merged()
		fileHash := h.Hash(files["Taskfile.yml"], files["inc.yml"])
		singles := map[string]single{}
		defer func() { multi(part, rng, tb, files, dir, bin, scratch, singles, reqs, ti, fileHash) }()
		for ri, req := range reqs {
			exp := Resolve(ms, req)
			res := p16.Proc{Bin: bin, Dir: dir, Args: []string{req}, Timeout: 120 * time.Second, TmpDir: scratch}.Run()
			part.Count("cli_runs", 1)
			ran, match, bad := parseOut(res.Stdout)
			o := obs{Exit: res.Exit, Signal: res.Signal, Ran: ran, Match: match, Stdout: h.Truncate(res.Stdout, 2000), Stderr: h.Truncate(res.Stderr, 6000)}
			witness := func() map[string]string {
				w := map[string]string{}
				for k, v := range files {
					w[k] = v
				}
				cj, _ := json.MarshalIndent(map[string]any{
					"seed": h.Seed(), "tier": h.Tier(), "table_index": ti, "request_index": ri, "table": tb,
					"request": req, "argv": []string{"task", req}, "expected": exp, "observed": o,
				}, "", " ")
				w["case.json"] = string(cj)
				return w
			}
			if res.TimedOut {
				part.Inconc(fmt.Sprintf("table %d request %q: watchdog", ti, req))
				continue
			}
			nontrivial := exp.Candidates >= 2 || hasMeta(req) || hasMeta(exp.Name) || exp.Kind == K200 || exp.Kind == K203
			part.Eval(h.Hash(fileHash, req), nontrivial)
			part.Sample(map[string]any{"Taskfile.yml": files["Taskfile.yml"], "inc.yml": files["inc.yml"], "request": req, "expected": exp, "observed_exit": res.Exit, "observed_stdout": res.Stdout}, 4)

			// crash: always a violation
			if c, ok := p16.ParseCrash(res.Stderr); ok || res.Crashed() {
				site := "signal " + res.Signal
				if ok {
					site = c.Kind + " " + c.Site()
					if c.Via != "" {
						site += " via " + c.Via
					}
				}
				part.Count("crashes", 1)
				part.Violation("C15 | crash | "+site, fmt.Sprintf("request %q crashed Task (%s: %s)", req, c.Kind, c.Msg), witness())
				continue
			}
			if res.Exit >= 100 && res.Exit <= 110 {
				part.Count("setup_rejected_not_judged", 1)
				part.SetAdd("setup_diagnostics", h.Truncate(firstLine(res.Stderr), 80))
				continue
			}
			part.Count("requests_judged", 1)
			part.Count("expected_"+exp.Kind, 1)
			if exp.Candidates >= 2 {
				part.Count("requests_with_2+_candidates", 1)
			}
			for name, on := range map[string]bool{"decided_exact_over_wildcard": exp.ExactOverWild, "decided_exact_over_alias": exp.ExactOverAlias,
				"decided_wildcard_over_alias": exp.WildOverAlias, "decided_first_of_several_wildcards": exp.FirstOfWilds > 1, "decided_parent_before_included": exp.ParentFirst,
				"suggestion_demanded": exp.SuggestDemanded != ""} {
				if on {
					part.Count(name, 1)
				}
			}
			if bad {
				part.Violation("C15 | probe-output | unparsable", fmt.Sprintf("request %q: probe output not parsable: %q", req, res.Stdout), witness())
				continue
			}

			switch exp.Kind {
			case KExact, KWild, KAlias:
				if len(ran) == 1 && ran[0] == exp.ID && res.Exit == 0 {
					held := true
					if exp.Kind == KWild {
						part.Count("match_checked", 1)
						part.Max("match_items", int64(len(match)))
						got, ok := reconstruct(exp.Name, match)
						if !ok || got != req {
							held = false
						}
						if !ok {
							part.Violation(matchSig("match-count", cause(ms, req, ran, match, res.Exit)), fmt.Sprintf("request %q ran %q with %d MATCH items %q, pattern has %d '*'", req, exp.Name, len(match), match, stars(exp.Name)), witness())
						} else if got != req {
							part.Violation(matchSig("match-reconstruct", cause(ms, req, ran, match, res.Exit)), fmt.Sprintf("request %q ran %q with MATCH %q which rebuilds %q", req, exp.Name, match, got), witness())
						}
					}
					if held {
						singles[req] = single{Line: strings.TrimSpace(res.Stdout), Exp: exp}
					}
					continue
				}
				part.Violation(wrongSig(ms, req, exp, ran, match, res.Exit), fmt.Sprintf("request %q: expected %s %q (marker %d) to run; observed exit %d, ran markers %v", req, exp.Kind, exp.Name, exp.ID, res.Exit, ran), witness())
			case K203, K200:
				want := 203
				if exp.Kind == K200 {
					want = 200
				}
				if len(ran) > 0 || res.Exit != want {
					part.Violation(wrongSig(ms, req, exp, ran, match, res.Exit), fmt.Sprintf("request %q: expected error %d and nothing to run; observed exit %d, ran markers %v", req, want, res.Exit, ran), witness())
					continue
				}
				if exp.SuggestDemanded != "" {
					if !strings.Contains(res.Stderr, "Did you mean "+strconv.Quote(exp.SuggestDemanded)) {
						sig := "C15 | no-suggestion | unique-distance-1"
						if strings.Contains(res.Stderr, "Did you mean") {
							sig = "C15 | other-suggestion | unique-distance-1"
						}
						if len(exp.SuggestDemanded) <= 2 {
							sig += " | closest name has <= 2 characters"
						}
						part.Violation(sig, fmt.Sprintf("request %q: %q is the only name/alias at distance 1 (all others > 2) but the 200 error does not suggest it: %s", req, exp.SuggestDemanded, firstLineWith(res.Stderr, "does not exist")), witness())
					} else {
						part.Count("suggestion_seen", 1)
					}
				}
			}
		}
	})
	f := false
	return h.Finish(h.Report{
		ID: id, Level: "exploration", Rule: rule, Exhaustive: &f, Start: start,
		Assumptions: []string{
			"the shell's echo and slim-sprig's b64enc transmit the origin marker and the MATCH items faithfully",
			"requests cannot start with '-' or contain '=' (the CLI's argument syntax claims those); such requests are not generated",
			"names and aliases of an included file never start with ':' and no task is called 'default' (both have extra, documented meanings outside the statement)",
			"one include only, so that Taskfile order of the merged table is well defined (C09 covers several)",
			"MATCH of an exactly matched name that itself contains '*' is not judged",
		},
		MinEvents: int64(h.Pick(1500, 20000)), EventsKey: "requests_judged",
	}, part)
}

func firstLine(s string) string {
	s = strings.TrimSpace(s)
	if i := strings.Index(s, "\n"); i >= 0 {
		return s[:i]
	}
	return s
}

func firstLineWith(s, sub string) string {
	for _, l := range strings.Split(s, "\n") {
		if strings.Contains(l, sub) {
			return l
		}
	}
	return firstLine(s)
}

// wrongSig names the way in which the observed resolution differs from the
// model's.
func wrongSig(ms []M, req string, exp Expect, ran []int, match []string, exit int) string {
	observed := "exit" + strconv.Itoa(exit)
	if len(ran) > 1 {
		observed = "ran-several"
	} else if len(ran) == 1 {
		var m *M
		for i := range ms {
			if ms[i].ID == ran[0] {
				m = &ms[i]
			}
		}
		switch {
		case m == nil:
			observed = "ran:unknown-marker"
		case m.ID == exp.ID:
			observed = "ran:expected-task+exit" + strconv.Itoa(exit)
		case m.Name == req:
			observed = "ran:exact"
		case strings.Contains(m.Name, "*") && literalMatch(m.Name, req):
			observed = "ran:later-wildcard"
			if exp.Kind != KWild {
				observed = "ran:wildcard"
			}
		case contains(m.Aliases, req):
			observed = "ran:alias-holder"
		default:
			observed = "ran:non-matching-task"
		}
	}
	c := cause(ms, req, ran, match, exit)
	if c != "unexplained" {
		return "C15 | literal-names | " + c
	}
	return "C15 | wrong-resolution | expected=" + exp.Kind + " observed=" + observed + " | " + c
}

const asRegexp = "as-if-names-were-regexps"

func matchSig(kind, c string) string {
	if c != "unexplained" {
		return "C15 | literal-names | " + c
	}
	return "C15 | " + kind + " | " + c
}

// cause is a classification of a violation for its signature only (the verdict
// never depends on it): does the observation coincide with what one gets when
// task names are read as regular expressions ("^"+name with '*' -> "(.*)"+"$")
// instead of literally? Is the request text a template action?
func cause(ms []M, req string, ran []int, match []string, exit int) string {
	var tags []string
	if id, m, code, ok := regexpReading(ms, req); ok {
		same := false
		if code != 0 {
			same = len(ran) == 0 && exit == code
		} else {
			same = exit == 0 && len(ran) == 1 && ran[0] == id && strings.Join(m, "\x00") == strings.Join(match, "\x00") && len(m) == len(match)
		}
		if same {
			tags = append(tags, asRegexp)
		}
	}
	if len(tags) == 0 && strings.Contains(req, "{{") {
		tags = append(tags, "request-contains-template-braces")
	}
	if len(tags) == 0 {
		return "unexplained"
	}
	return strings.Join(tags, " ")
}

// regexpReading resolves req the way a regexp reading of the names would.
// ok=false if a name does not compile (that reading would crash instead).
func regexpReading(ms []M, req string) (id int, match []string, code int, ok bool) {
	for _, m := range ms {
		if m.Name == req {
			return m.ID, nil, 0, true
		}
	}
	for _, m := range ms {
		re, err := regexp.Compile("^" + strings.ReplaceAll(m.Name, "*", "(.*)") + "$")
		if err != nil {
			return 0, nil, 0, false
		}
		sub := re.FindStringSubmatch(req)
		if len(sub) == 0 || len(sub)-1 != stars(m.Name) {
			continue
		}
		return m.ID, sub[1:], 0, true
	}
	var holders []M
	for _, m := range ms {
		if contains(m.Aliases, req) {
			holders = append(holders, m)
		}
	}
	switch len(holders) {
	case 0:
		return 0, nil, 200, true
	case 1:
		return holders[0].ID, nil, 0, true
	}
	return 0, nil, 203, true
}
