package p10

import (
	"fmt"
	"strings"

	"github.com/go-task/task/v3/verifh/h"
)

// envCase is one point of the env lattice: which places define the
// environment variable the command reads with $NAME.
type envCase struct {
	TaskEnv    bool // env: of the task
	Dot1, Dot2 bool // first / second file of the task's dotenv: list
	Global     int  // 0 none, 1 root Taskfile env:, 2 root Taskfile dotenv: (never both: not ordered by the documentation)
	Proc       int  // process environment of the CLI: 0 not set, 1 set to a site-naming value, 2 set to the EMPTY string
	Experiment bool // TASK_X_ENV_PRECEDENCE=1
	Kind       kind // kLit or kSh for the env: entries
	// VarSites: template-variable sites (task vars, call vars, root globals, CLI
	// NAME=value) that define a VARIABLE of the same name, with site-naming
	// values. vars: and env: are separate namespaces for what a command finds in
	// its environment: "$NAME" follows the env order whatever the variables are.
	// (Whether an env: entry is visible to templates, and where it would rank, is
	// not documented: {{.NAME}} is not judged in these scenarios.)
	VarSites []site
	// Decoy: another task with its own dir: and a dotenv file of the SAME relative name (defining the variable
	// differently) runs first in the same invocation; the target's dotenv paths are relative then. The decoy's
	// file must never be taken for the target's.
	Decoy bool
}

var envSiteNames = []string{"taskenv", "taskdot1", "taskdot2", "globalenv", "globaldot", "procenv"}

func (e envCase) key() string {
	var s []string
	if e.TaskEnv {
		s = append(s, "taskenv."+kindName[e.Kind])
	}
	if e.Dot1 {
		s = append(s, "taskdot1")
	}
	if e.Dot2 {
		s = append(s, "taskdot2")
	}
	switch e.Global {
	case 1:
		s = append(s, "globalenv."+kindName[e.Kind])
	case 2:
		s = append(s, "globaldot")
	}
	switch e.Proc {
	case 1:
		s = append(s, "procenv")
	case 2:
		s = append(s, "procenv=empty")
	}
	k := fmt.Sprintf("experiment=%v|%s", e.Experiment, strings.Join(s, ","))
	if e.Decoy {
		k += "|decoy-task-same-dotenv-name"
	}
	if len(e.VarSites) > 0 {
		k += "|vars="
		for _, v := range e.VarSites {
			k += siteName[v] + ","
		}
	}
	return k
}

func (e envCase) count() int {
	n := 0
	for _, b := range []bool{e.TaskEnv, e.Dot1, e.Dot2, e.Global != 0, e.Proc != 0} {
		if b {
			n++
		}
	}
	return n
}

// expected follows the statement: task env > task dotenv (first file wins) >
// global env/dotenv; the process environment over all of them unless the
// experiment is enabled (then it is the fallback).
// procValue is what a command sees when the process environment decides:
// "procenv-empty" stands for the empty string (set, not unset).
func (e envCase) procValue() string {
	if e.Proc == 2 {
		return "procenv-empty"
	}
	return "procenv.lit"
}

func (e envCase) expected() string {
	if e.Proc != 0 && !e.Experiment {
		return e.procValue()
	}
	switch {
	case e.TaskEnv:
		return "taskenv." + kindName[e.Kind]
	case e.Dot1:
		return "taskdot1.lit"
	case e.Dot2:
		return "taskdot2.lit"
	case e.Global == 1:
		return "globalenv." + kindName[e.Kind]
	case e.Global == 2:
		return "globaldot.lit"
	case e.Proc != 0:
		return e.procValue()
	}
	return "unset"
}

func envCases() []envCase {
	var out []envCase
	seen := map[string]bool{}
	for _, k := range []kind{kLit, kSh} {
		for mask := 0; mask < 8; mask++ {
			for proc := 0; proc < 3; proc++ {
				for g := 0; g < 3; g++ {
					for x := 0; x < 2; x++ {
						e := envCase{TaskEnv: mask&1 != 0, Dot1: mask&2 != 0, Dot2: mask&4 != 0, Proc: proc, Global: g, Experiment: x == 1, Kind: k}
						if !seen[e.key()] {
							seen[e.key()] = true
							out = append(out, e)
						}
						if d := e; k == kLit && (e.Dot1 || e.Dot2) && proc != 2 {
							d.Decoy = true
							if !seen[d.key()] {
								seen[d.key()] = true
								out = append(out, d)
							}
						}
					}
				}
			}
		}
	}
	return out
}

// envCollisions: the literal-kind env lattice (process env unset or set) x a
// variable of the same name at {task vars}, {call vars}, {root globals}, {CLI},
// {task vars, call vars, root globals}.
func envCollisions() []envCase {
	var out []envCase
	sets := [][]site{{sTask}, {sCall}, {sGlobalTF}, {sCLI}, {sTask, sCall, sGlobalTF}}
	for _, e := range envCases() {
		if e.Kind != kLit || e.Proc == 2 || (e.Proc == 1 && !h.Thorough()) {
			continue // quick tier: process env unset only (a set process variable is covered by the plain env lattice)
		}
		for _, vs := range sets {
			c := e
			c.VarSites = vs
			out = append(out, c)
		}
	}
	return out
}

func (e envCase) hasVar(s site) bool {
	for _, v := range e.VarSites {
		if v == s {
			return true
		}
	}
	return false
}

func envEntry(indent, name, site string, k kind) string {
	if k == kSh {
		return indent + name + ":\n" + indent + "  sh: " + yq("printf '%s' "+site+".sh") + "\n"
	}
	return indent + name + ": " + yq(site+".lit") + "\n"
}

// buildEnv renders the project of an env scenario.
func (sc *scenario) buildEnv() {
	e := sc.Env
	n := sc.Name
	files := map[string]string{}
	root := "version: '3'\n"
	if e.hasVar(sGlobalTF) {
		root += "vars:\n  " + n + ": 'globaltf.lit'\n"
	}
	switch e.Global {
	case 1:
		root += "env:\n" + envEntry("  ", n, "globalenv", e.Kind)
	case 2:
		// in the literal-kind half of the lattice the file is called .env, the name the experiments loader reads too
		// (only its TASK_X_* keys may reach the process environment)
		gf := "g.env"
		if e.Kind == kLit {
			gf = ".env"
		}
		root += "dotenv: ['" + gf + "']\n"
		files[gf] = n + "=globaldot.lit\n"
	}
	var t strings.Builder
	t.WriteString("tasks:\n")
	if e.hasVar(sCall) {
		t.WriteString("  caller:\n    cmds:\n      - task: target\n        vars:\n          " + n + ": 'callvars.lit'\n")
	}
	t.WriteString("  target:\n")
	if e.Dot1 || e.Dot2 {
		// absolute paths: the working directory of an included task is not the root directory
		if e.Decoy {
			t.WriteString("    dotenv: ['t1.env', 't2.env']\n")
		} else {
			t.WriteString("    dotenv: ['{{.ROOT_DIR}}/t1.env', '{{.ROOT_DIR}}/t2.env']\n")
		}
		files["t1.env"] = "DECOY_T1=x\n"
		files["t2.env"] = "DECOY_T2=x\n"
		if e.Dot1 {
			files["t1.env"] += n + "=taskdot1.lit\n"
		}
		if e.Dot2 {
			files["t2.env"] += n + "=taskdot2.lit\n"
		}
	}
	if e.TaskEnv {
		t.WriteString("    env:\n" + envEntry("      ", n, "taskenv", e.Kind))
	}
	decoy := ""
	if e.Decoy {
		decoy = "  decoy:\n    dir: ./ddir\n    dotenv: ['t1.env', 't2.env']\n    cmds:\n      - 'true'\n"
		files["ddir/t1.env"] = n + "=decoydot1.lit\n"
		files["ddir/t2.env"] = n + "=decoydot2.lit\nDECOY_T2=y\n"
	}
	// a dynamic variable whose command reads the same environment variable
	t.WriteString("    vars:\n      SEEN_BY_SH:\n        sh: " + yq(`printf '%s' "${`+n+`-unset}"`) + "\n")
	if e.hasVar(sTask) {
		t.WriteString("      " + n + ": 'taskvars.lit'\n")
	}
	// ${N-unset}: an empty value is a value
	t.WriteString("    cmds:\n      - " + yq(`printf '%s\n' "E|${`+n+`-unset}|"`) + "\n")
	t.WriteString("      - " + yq(`printf '%s\n' 'S|{{.SEEN_BY_SH}}|'`) + "\n")
	switch sc.Pos {
	case 0:
		root += t.String() + decoy
	case 1:
		root += "includes:\n  a:\n    taskfile: ./inc1/Taskfile.yml\n"
		files["inc1/Taskfile.yml"] = "version: '3'\n" + t.String()
	case 2:
		root += "includes:\n  a:\n    taskfile: ./inc1/Taskfile.yml\n"
		files["inc1/Taskfile.yml"] = "version: '3'\nincludes:\n  b:\n    taskfile: ./inc2/Taskfile.yml\n"
		files["inc1/inc2/Taskfile.yml"] = "version: '3'\n" + t.String()
	}
	files["Taskfile.yml"] = root
	sc.files = files
	sc.args = []string{"-s"}
	if e.hasVar(sCLI) {
		sc.args = append(sc.args, n+"=cli.lit")
	}
	if e.Decoy {
		sc.args = append(sc.args, "decoy")
	}
	if e.hasVar(sCall) {
		sc.args = append(sc.args, posTaskPrefix[sc.Pos]+"caller")
	} else {
		sc.args = append(sc.args, posTaskPrefix[sc.Pos]+"target")
	}
	switch e.Proc {
	case 1:
		sc.env = append(sc.env, n+"=procenv.lit")
	case 2:
		sc.env = append(sc.env, n+"=")
	}
	if e.Experiment {
		sc.env = append(sc.env, "TASK_X_ENV_PRECEDENCE=1")
	}
	sc.expected = e.expected()
}
