package p10

import (
	"context"
	"os"
	"os/exec"
	"strings"
	"syscall"
	"time"

	"github.com/go-task/task/v3/verifh/h"
)

// runCLI runs one CLI invocation like h.CLI.Run, but hands the child two
// regular files (capBase.stdout / capBase.stderr) as stdout and stderr
// instead of pipes. With pipes the harness has copier goroutines that must
// drain within exec.Cmd.WaitDelay after the child exits; a run that ends with
// exit 0 and no output at all was seen a few times in ~50 000 pipe-captured
// runs on an overloaded machine and never with file capture. A file is
// written by the child itself, so what the child wrote is what is read back.
func runCLI(c h.CLI, capBase string) h.Result {
	to := c.Timeout
	if to == 0 {
		to = 60 * time.Second
	}
	ctx, cancel := context.WithTimeout(context.Background(), to)
	defer cancel()
	cmd := exec.CommandContext(ctx, c.Bin, c.Args...)
	cmd.Dir = c.Dir
	cmd.Env = append(h.BaseEnv(c.Dir), c.Env...)
	so, err1 := os.Create(capBase + ".stdout")
	se, err2 := os.Create(capBase + ".stderr")
	if err1 != nil || err2 != nil {
		return h.Result{Exit: -2, Stderr: "[harness] cannot create capture files", TimedOut: true}
	}
	defer os.Remove(so.Name())
	defer os.Remove(se.Name())
	cmd.Stdout, cmd.Stderr = so, se
	if c.Stdin != "" {
		cmd.Stdin = strings.NewReader(c.Stdin)
	}
	cmd.SysProcAttr = &syscall.SysProcAttr{Setpgid: true}
	cmd.Cancel = func() error { return syscall.Kill(-cmd.Process.Pid, syscall.SIGKILL) }
	cmd.WaitDelay = 2 * time.Second
	err := cmd.Run()
	so.Close()
	se.Close()
	r := h.Result{Stdout: h.ReadFile(so.Name()), Stderr: h.ReadFile(se.Name())}
	if cmd.ProcessState != nil {
		r.CPU = cmd.ProcessState.UserTime() + cmd.ProcessState.SystemTime()
		r.Exit = cmd.ProcessState.ExitCode()
		if ws, ok := cmd.ProcessState.Sys().(syscall.WaitStatus); ok && ws.Signaled() {
			r.Signal = ws.Signal().String()
		}
	} else if err != nil {
		r.Exit = -2
		r.Stderr += "\n[harness] " + err.Error()
	}
	if ctx.Err() != nil {
		r.TimedOut = true
	}
	return r
}
