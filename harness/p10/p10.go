// Package p10 is the C10 check: variable and environment precedence follows
// the documented order. Black-box: every scenario is one run of the rebuilt
// CLI in a generated project directory; every definition of the probed name
// carries a value that names its definition site, so the site that won is
// read off the probe's output.
package p10

import (
	"encoding/json"
	"fmt"
	"math/rand"
	"os"
	"path/filepath"
	"runtime"
	"sort"
	"strings"
	"time"

	"github.com/go-task/task/v3/verifh/h"
)

// ---------------------------------------------------------------------------
// definition sites of a template variable

type site int

const (
	sTask     site = iota // vars: of the task itself
	sCall                 // vars: of the calling task's `task:` command
	sIncFile              // top-level vars: of the included Taskfile that holds the task
	sIncStmt              // vars: of the include statement that includes that Taskfile
	sGlobalTF             // top-level vars: of the root Taskfile
	sCLI                  // NAME=value on the command line (same rank as sGlobalTF)
	sEnv                  // process environment of the CLI
)

var siteName = map[site]string{sTask: "taskvars", sCall: "callvars", sIncFile: "incfile", sIncStmt: "incstmt", sGlobalTF: "globaltf", sCLI: "cli", sEnv: "osenv"}

// documented rank, 0 = most important
var siteRank = map[site]int{sTask: 0, sCall: 1, sIncFile: 2, sIncStmt: 3, sGlobalTF: 4, sCLI: 4, sEnv: 5}

type kind int

const (
	kLit       kind = iota // literal string
	kTmpl                  // template over the lower-priority value of the same name: 'site({{.N | default "none"}})'
	kSh                    // sh: printf
	kRef                   // ref: to a helper variable that lives in the OS environment (lowest priority)
	kBackWrap              // refers back to the lower-priority value of the SAME name: 'site({{.N | default "none"}})' (task vars / call vars only)
	kBackIdiom             // the documented idiom '{{.N | default "fallback"}}' (task vars / call vars only)
	kSibling               // a second variable of the same tier: 'sibling({{.N | default "none"}})'
)

var kindName = map[kind]string{kLit: "lit", kTmpl: "tmpl", kSh: "sh", kRef: "ref", kBackWrap: "backwrap", kBackIdiom: "backidiom", kSibling: "sibling"}

// sites whose value can only be a literal string
func literalOnly(s site) bool { return s == sCLI || s == sEnv }

type def struct {
	Site site
	Kind kind
}

func (d def) String() string { return siteName[d.Site] + "." + kindName[d.Kind] }

// scenario is one CLI run.
type scenario struct {
	Family   string // vars | special | env
	Pos      int    // 0 root file, 1 included, 2 included by an included file
	Name     string // the probed variable
	Defs     []def  // sorted, most important first (vars, special)
	Uniform  bool   // part of the exhaustively enumerated uniform-kind lattice
	SibAt    *site  // sibling family: the tier that also defines SY_<name> as a template over the probed name; the probe reads the sibling
	Comp     []def  // if the winning definition is a template: where (and how) its companion variable is defined, most important first
	Env      envCase
	idx      int
	files    map[string]string
	args     []string
	env      []string
	cwd      string // relative to the project dir
	expected string
}

func (sc *scenario) key() string {
	var ds []string
	for _, d := range sc.Defs {
		ds = append(ds, d.String())
	}
	if sc.Family == "env" {
		return fmt.Sprintf("env|pos%d|%s", sc.Pos, sc.Env.key())
	}
	k := fmt.Sprintf("%s|pos%d|%s|%s", sc.Family, sc.Pos, sc.Name, strings.Join(ds, ","))
	if sc.SibAt != nil {
		k += "|sibling@" + siteName[*sc.SibAt]
	}
	if len(sc.Comp) > 0 {
		var cs []string
		for _, d := range sc.Comp {
			cs = append(cs, d.String())
		}
		k += "|companion=" + strings.Join(cs, ",")
	}
	return k
}

// yq quotes a YAML single-quoted scalar.
func yq(s string) string { return "'" + strings.ReplaceAll(s, "'", "''") + "'" }

func helperName(name string, s site) string {
	return "H_" + name + "_" + strings.ToUpper(siteName[s])
}

// value the definition at d yields, given the value of the next lower definition.
func litValue(d def) string { return siteName[d.Site] + "." + kindName[d.Kind] }

// A template definition at site s does not refer to the probed name itself
// (a self-reference is ambiguous: the site is itself the highest-priority
// place defining the name) but to a companion variable L_<s>. Only the
// winning definition is observable, so only its companion is defined: with
// site-naming values (literal or sh:) at a subset of the sites of lower
// priority than s, chosen independently of where the probed name is defined.
// The documented order then says which companion value the template must see.
func companionName(name string, s site) string {
	return "L_" + strings.ToUpper(siteName[s]) + "_" + strings.TrimPrefix(name, "PV_")
}

// companions lists, most important first, the definitions of the companion of the template at s.
func (sc *scenario) companions(s site) []def {
	if len(sc.Defs) == 0 || sc.Defs[0].Site != s || sc.Defs[0].Kind != kTmpl {
		return nil
	}
	return sc.Comp
}

// expectValue computes the value the documented order gives: the most
// important definition wins; a template definition embeds the value of the
// most important definition of its companion.
func (sc *scenario) expectValue() string {
	if sc.SibAt != nil {
		// the sibling is computed at its own tier from that tier's value of the
		// name, whatever higher tiers define
		d, _ := sc.def(*sc.SibAt)
		return "sibling(" + litValue(d) + ")"
	}
	if len(sc.Defs) == 0 {
		return "unset"
	}
	d := sc.Defs[0]
	switch d.Kind {
	case kTmpl:
		inner := "none"
		if c := sc.companions(d.Site); len(c) > 0 {
			inner = litValue(c[0])
		}
		return siteName[d.Site] + "(" + inner + ")"
	case kBackWrap, kBackIdiom:
		// documented: "Variables declared in the task definition" may refer to the
		// value of the same name given by the caller / the CLI (usage.mdx:
		// RECIPIENT: '{{default "World" .RECIPIENT}}', USER_NAME: '{{.USER_NAME | default "DefaultUser"}}')
		inner := map[kind]string{kBackWrap: "none", kBackIdiom: "fallback"}[d.Kind]
		if len(sc.Defs) > 1 {
			inner = litValue(sc.Defs[1])
		}
		if d.Kind == kBackIdiom {
			return inner
		}
		return siteName[d.Site] + "(" + inner + ")"
	}
	return litValue(d)
}

func sibName(name string) string { return "SY_" + strings.TrimPrefix(name, "PV_") }

type entry struct {
	name string
	d    def
}

// entries lists what is defined at site s: the probed name and companions of higher templates.
func (sc *scenario) entries(s site) []entry {
	var out []entry
	if d, ok := sc.def(s); ok {
		out = append(out, entry{sc.Name, d})
		if sc.SibAt != nil && *sc.SibAt == s {
			out = append(out, entry{sibName(sc.Name), def{s, kSibling}})
		}
	}
	for _, d := range sc.Defs {
		if d.Kind != kTmpl {
			continue
		}
		for _, c := range sc.companions(d.Site) {
			if c.Site == s {
				out = append(out, entry{companionName(sc.Name, d.Site), c})
			}
		}
	}
	return out
}

// yamlDef renders `NAME: value` for one definition.
func (sc *scenario) yamlDef(indent string, e entry) string {
	d := e.d
	switch d.Kind {
	case kBackWrap:
		return indent + e.name + ": " + yq(siteName[d.Site]+`({{.`+sc.Name+` | default "none"}})`) + "\n"
	case kBackIdiom:
		return indent + e.name + ": " + yq(`{{.`+sc.Name+` | default "fallback"}}`) + "\n"
	case kSibling:
		return indent + e.name + ": " + yq(`sibling({{.`+sc.Name+` | default "none"}})`) + "\n"
	case kTmpl:
		return indent + e.name + ": " + yq(siteName[d.Site]+`({{.`+companionName(sc.Name, d.Site)+` | default "none"}})`) + "\n"
	case kSh:
		return indent + e.name + ":\n" + indent + "  sh: " + yq("printf '%s' "+litValue(d)) + "\n"
	case kRef:
		return indent + e.name + ":\n" + indent + "  ref: ." + helperName(sc.Name, d.Site) + "\n"
	}
	return indent + e.name + ": " + yq(litValue(d)) + "\n"
}

func (sc *scenario) def(s site) (def, bool) {
	for _, d := range sc.Defs {
		if d.Site == s {
			return d, true
		}
	}
	return def{}, false
}

// Positions 3 and 4: like 2 (include depth 2), but the root includes the
// middle Taskfile twice (namespaces a and z) and it is the ROOT's include
// statement that carries the vars: each path has its own include-statement
// value of the name ("incstmt…" on the path of the probed task, "otherpath.lit"
// on the other one). Position 3 probes the task through a, position 4 through z.
var posTaskPrefix = []string{"", "a:", "a:b:", "a:b:", "z:b:"}
var posFile = []string{"Taskfile.yml", "inc1/Taskfile.yml", "inc1/inc2/Taskfile.yml", "inc1/inc2/Taskfile.yml", "inc1/inc2/Taskfile.yml"}
var posLabel = []string{"root", "depth1", "depth2", "depth2-twice-a", "depth2-twice-z"}

func (sc *scenario) varsBlock(indent string, s site) string {
	es := sc.entries(s)
	if len(es) == 0 {
		return ""
	}
	out := indent + "vars:\n"
	for _, e := range es {
		out += sc.yamlDef(indent+"  ", e)
	}
	return out
}

// probeCmd prints the value the template engine sees, and the working directory.
func (sc *scenario) probeCmds() string {
	name := sc.Name
	if sc.SibAt != nil {
		name = sibName(sc.Name)
	}
	tmpl := `printf '%s\n' 'P|{{.` + name + ` | default "unset"}}|'`
	out := "      - " + yq(tmpl) + "\n"
	if sc.Family == "special" {
		out += "      - " + yq(`printf 'D|%s|\n' "$(pwd)"`) + "\n"
	}
	return out
}

// tasksBlock renders the target task and, if the call site defines the name, its caller.
func (sc *scenario) tasksBlock() string {
	var b strings.Builder
	b.WriteString("tasks:\n")
	if sc.viaCaller() {
		b.WriteString("  caller:\n    cmds:\n      - task: target\n")
		b.WriteString(sc.varsBlock("        ", sCall))
	}
	b.WriteString("  target:\n")
	b.WriteString(sc.varsBlock("    ", sTask))
	b.WriteString("    cmds:\n")
	b.WriteString(sc.probeCmds())
	return b.String()
}

// build renders the project for a vars/special scenario.
func (sc *scenario) build(bin string) {
	files := map[string]string{}
	root := "version: '3'\n" + sc.varsBlock("", sGlobalTF)
	switch sc.Pos {
	case 0:
		root += sc.tasksBlock()
	case 1:
		root += "includes:\n  a:\n    taskfile: ./inc1/Taskfile.yml\n" + sc.varsBlock("    ", sIncStmt)
		root += "tasks:\n  roottask:\n    cmds:\n      - 'true'\n"
		files["inc1/Taskfile.yml"] = "version: '3'\n" + sc.varsBlock("", sIncFile) + sc.tasksBlock()
	case 2:
		root += "includes:\n  a:\n    taskfile: ./inc1/Taskfile.yml\n"
		root += "tasks:\n  roottask:\n    cmds:\n      - 'true'\n"
		files["inc1/Taskfile.yml"] = "version: '3'\nincludes:\n  b:\n    taskfile: ./inc2/Taskfile.yml\n" + sc.varsBlock("    ", sIncStmt) +
			"tasks:\n  midtask:\n    cmds:\n      - 'true'\n"
		files["inc1/inc2/Taskfile.yml"] = "version: '3'\n" + sc.varsBlock("", sIncFile) + sc.tasksBlock()
	case 3, 4:
		own := sc.varsBlock("    ", sIncStmt)
		// the other path always defines the name (and the companion the winning template reads)
		other := "    vars:\n      " + sc.Name + ": 'otherpath.lit'\n"
		if len(sc.Defs) > 0 && sc.Defs[0].Kind == kTmpl {
			other += "      " + companionName(sc.Name, sc.Defs[0].Site) + ": 'otherpath.lit'\n"
		}
		if sc.SibAt != nil {
			other += "      " + sibName(sc.Name) + ": 'otherpath.lit'\n"
		}
		va, vz := own, other
		if sc.Pos == 4 {
			va, vz = other, own
		}
		root += "includes:\n  a:\n    taskfile: ./inc1/Taskfile.yml\n" + va + "  z:\n    taskfile: ./inc1/Taskfile.yml\n" + vz
		root += "tasks:\n  roottask:\n    cmds:\n      - 'true'\n"
		// the inner include statement is in mapping form but never defines the
		// name: the documentation does not order the two statements of one path
		files["inc1/Taskfile.yml"] = "version: '3'\nincludes:\n  b:\n    taskfile: ./inc2/Taskfile.yml\n    vars:\n      DECOY_INNER: 'x'\n" +
			"tasks:\n  midtask:\n    cmds:\n      - 'true'\n"
		files["inc1/inc2/Taskfile.yml"] = "version: '3'\n" + sc.varsBlock("", sIncFile) + sc.tasksBlock()
	}
	files["Taskfile.yml"] = root
	files["sub/.keep"] = ""
	sc.files = files
	sc.args = []string{"-s"}
	for _, e := range sc.entries(sCLI) {
		sc.args = append(sc.args, e.name+"="+litValue(e.d))
	}
	task := "target"
	if sc.viaCaller() {
		task = "caller"
	}
	sc.args = append(sc.args, posTaskPrefix[sc.Pos]+task)
	for _, e := range sc.entries(sEnv) {
		sc.env = append(sc.env, e.name+"="+litValue(e.d))
	}
	for _, d := range sc.Defs {
		if d.Kind == kRef {
			sc.env = append(sc.env, helperName(sc.Name, d.Site)+"="+litValue(d))
		}
	}
	if sc.Family == "special" {
		sc.cwd = "sub"
	}
	sc.expected = sc.expectValue()
}

func (sc *scenario) viaCaller() bool { return len(sc.entries(sCall)) > 0 }

// ---------------------------------------------------------------------------
// enumeration

func sitesFor(pos int, withEnv bool) []site {
	s := []site{sTask, sCall}
	if pos > 0 {
		s = append(s, sIncFile, sIncStmt)
	}
	if withEnv {
		s = append(s, sEnv)
	}
	return s
}

func sortDefs(d []def) {
	sort.SliceStable(d, func(i, j int) bool { return siteRank[d[i].Site] < siteRank[d[j].Site] })
}

// subsets enumerates every subset of the plain sites x {no global, Taskfile global, CLI assignment}.
// A Taskfile global and a CLI assignment of the same name are never both
// defined: the documentation gives them one rank and does not order them.
func subsets(pos int, withEnv bool, f func(sites []site)) {
	plain := sitesFor(pos, withEnv)
	for mask := 0; mask < 1<<len(plain); mask++ {
		for g := 0; g < 3; g++ {
			var ss []site
			for i, s := range plain {
				if mask&(1<<i) != 0 {
					ss = append(ss, s)
				}
			}
			if g == 1 {
				ss = append(ss, sGlobalTF)
			} else if g == 2 {
				ss = append(ss, sCLI)
			}
			f(ss)
		}
	}
}

var specialNames = []string{"TASK", "ALIAS", "ROOT_DIR", "TASKFILE", "TASKFILE_DIR", "USER_WORKING_DIR", "TASK_DIR", "ROOT_TASKFILE", "TASK_EXE", "TASK_VERSION"}

func varName(r *rand.Rand) string {
	const letters = "ABCDEFGHJKLMNPQRSTUVWXYZ"
	b := []byte("PV_")
	for i := 0; i < 5; i++ {
		b = append(b, letters[r.Intn(len(letters))])
	}
	return string(b)
}

// lowerSubsets enumerates the subsets of the sites of lower priority than w
// (a Taskfile global and a CLI assignment never together).
func lowerSubsets(pos int, w site, f func(sites []site)) {
	subsets(pos, true, func(ss []site) {
		for _, s := range ss {
			if siteRank[s] <= siteRank[w] {
				return
			}
		}
		f(ss)
	})
}

func generate() (list []*scenario, lattice map[string]int) {
	seen := map[string]bool{}
	lattice = map[string]int{}
	add := func(sc *scenario) bool {
		k := sc.key()
		if seen[k] {
			return false
		}
		seen[k] = true
		sc.idx = len(list)
		list = append(list, sc)
		return true
	}
	// (1) the uniform-kind lattice, exhaustively
	nameRng := h.Rng(10, 1)
	name := varName(nameRng)
	for pos := 0; pos < 5; pos++ {
		for k := kLit; k <= kRef; k++ {
			if k == kTmpl {
				continue // enumerated below
			}
			if pos >= 3 && k != kLit && !h.Thorough() {
				continue // twice-included middle file: literal kind in the quick tier, all kinds in the thorough tier
			}
			subsets(pos, true, func(ss []site) {
				var defs []def
				for _, s := range ss {
					kk := k
					if literalOnly(s) {
						kk = kLit
					}
					defs = append(defs, def{s, kk})
				}
				sortDefs(defs)
				if add(&scenario{Family: "vars", Pos: pos, Name: name, Defs: defs, Uniform: true}) {
					lattice[fmt.Sprintf("vars.pos%d", pos)]++
				}
			})
		}
	}
	// (1b) template kind, exhaustively: winner site w x every subset C of the
	// lower-priority sites as definers of the companion x companion kind
	// {literal, sh} x {the probed name defined at w only, also (literal) at C}
	for pos := 0; pos < 5; pos++ {
		if pos >= 3 && !h.Thorough() {
			continue
		}
		ws := append(sitesFor(pos, false), sGlobalTF)
		for _, w := range ws {
			lowerSubsets(pos, w, func(cs []site) {
				for _, ck := range []kind{kLit, kSh} {
					for shared := 0; shared < 2; shared++ {
						defs := []def{{w, kTmpl}}
						var comp []def
						for _, c := range cs {
							kk := ck
							if literalOnly(c) {
								kk = kLit
							}
							comp = append(comp, def{c, kk})
							if shared == 1 {
								defs = append(defs, def{c, kLit})
							}
						}
						sortDefs(defs)
						sortDefs(comp)
						if add(&scenario{Family: "vars", Pos: pos, Name: name, Defs: defs, Comp: comp, Uniform: true}) {
							lattice[fmt.Sprintf("vars.tmpl.pos%d", pos)]++
						}
					}
				}
			})
		}
	}
	// (1c) refer-back: the definition in task vars / call vars is a template over
	// the lower-priority value of the same name (documented idiom), the lower
	// definition is literal or dynamic; a third, still lower definition may exist
	for pos := 0; pos < 3; pos++ {
		for _, hs := range []site{sTask, sCall} {
			lows := []site{}
			for _, l := range append(sitesFor(pos, true), sGlobalTF, sCLI) {
				if siteRank[l] > siteRank[hs] {
					lows = append(lows, l)
				}
			}
			for _, l := range lows {
				for _, lk := range []kind{kLit, kSh} {
					if literalOnly(l) && lk == kSh {
						continue
					}
					for _, hk := range []kind{kBackWrap, kBackIdiom} {
						for _, below := range []bool{false, true} {
							defs := []def{{hs, hk}, {l, lk}}
							if below {
								if l == sEnv {
									continue
								}
								defs = append(defs, def{sEnv, kLit})
							}
							sortDefs(defs)
							if add(&scenario{Family: "vars", Pos: pos, Name: name, Defs: defs, Uniform: true}) {
								lattice[fmt.Sprintf("vars.referback.pos%d", pos)]++
							}
						}
					}
				}
			}
		}
	}
	// (1d) sibling of a shadowed variable: tier L defines the name (literal or
	// sh:) and a sibling 'sibling({{.NAME}})'; a higher tier H redefines the
	// name; the probe reads the sibling, which is computed at tier L from tier
	// L's value. L in {root globals, included-file vars}: the vars of an include
	// statement are evaluated at load time (known finding) and call vars are
	// evaluated in the caller's scope, so for them a sibling is not "computed at
	// tier L" and the documentation does not say what it is.
	for pos := 0; pos < 3; pos++ {
		ls := []site{sGlobalTF}
		if pos > 0 {
			ls = append(ls, sIncFile)
		}
		for _, l := range ls {
			l := l
			highs := [][]site{{}}
			var above []site
			for _, hsite := range sitesFor(pos, false) {
				// an included file's top-level vars are merged into the root's
				// globals when the Taskfiles are loaded (they replace a root global
				// of the same name for every task, root tasks included): that is
				// the include model's subject (C08), so the included file is not
				// used as the higher tier of a root global
				if siteRank[hsite] < siteRank[l] && !(l == sGlobalTF && hsite == sIncFile) {
					above = append(above, hsite)
				}
			}
			for _, a := range above {
				highs = append(highs, []site{a})
			}
			if len(above) > 1 {
				highs = append(highs, above)
			}
			for _, hset := range highs {
				for _, lk := range []kind{kLit, kSh} {
					defs := []def{{l, lk}}
					for _, a := range hset {
						defs = append(defs, def{a, kLit})
					}
					sortDefs(defs)
					if add(&scenario{Family: "vars", Pos: pos, Name: name, Defs: defs, SibAt: &l, Uniform: true}) {
						lattice[fmt.Sprintf("vars.sibling.pos%d", pos)]++
					}
				}
			}
		}
	}
	// (2) mixed kinds, seeded
	n := h.Pick(300, 20000)
	r := h.Rng(10, 2)
	for i := 0; i < n; i++ {
		pos := r.Intn(5)
		var defs []def
		for _, s := range sitesFor(pos, true) {
			if r.Intn(100) < 60 {
				defs = append(defs, def{s, kind(r.Intn(4))})
			}
		}
		switch r.Intn(3) {
		case 1:
			defs = append(defs, def{sGlobalTF, kind(r.Intn(4))})
		case 2:
			defs = append(defs, def{sCLI, kLit})
		}
		for j := range defs {
			if literalOnly(defs[j].Site) {
				defs[j].Kind = kLit
			}
		}
		sortDefs(defs)
		sc := &scenario{Family: "vars", Pos: pos, Name: varName(r), Defs: defs}
		if len(defs) > 0 && defs[0].Kind == kTmpl {
			for _, c := range append(sitesFor(pos, true), sGlobalTF, sCLI) {
				if siteRank[c] > siteRank[defs[0].Site] && r.Intn(2) == 0 {
					if c == sCLI && len(sc.Comp) > 0 && sc.Comp[len(sc.Comp)-1].Site == sGlobalTF {
						continue
					}
					ck := []kind{kLit, kSh}[r.Intn(2)]
					if literalOnly(c) {
						ck = kLit
					}
					sc.Comp = append(sc.Comp, def{c, ck})
				}
			}
			sortDefs(sc.Comp)
		}
		add(sc)
	}
	// (3) special variables: available without a definition, overridden by every
	// subset of the Taskfile/CLI sites (the OS environment is not a definition
	// site for them: the documentation only speaks of "defining a variable").
	full := map[string]bool{}
	sr := h.Rng(10, 3)
	for _, i := range sr.Perm(len(specialNames))[:3] {
		full[specialNames[i]] = true
	}
	for _, nm := range specialNames {
		for pos := 0; pos < 3; pos++ {
			subsets(pos, false, func(ss []site) {
				if !h.Thorough() && !full[nm] && len(ss) > 1 {
					return // quick tier: all subsets for 3 seed-chosen names, {} and singletons for the others
				}
				var defs []def
				for _, s := range ss {
					defs = append(defs, def{s, kLit})
				}
				sortDefs(defs)
				if add(&scenario{Family: "special", Pos: pos, Name: nm, Defs: defs, Uniform: true}) {
					lattice[fmt.Sprintf("special.pos%d", pos)]++
				}
			})
		}
	}
	// (4) the env lattice
	for _, ec := range envCases() {
		for pos := 0; pos < 3; pos++ {
			if ec.Decoy && pos != 0 {
				continue // relative dotenv paths: the target has to sit in the root directory
			}
			if add(&scenario{Family: "env", Pos: pos, Name: "PE_" + name[3:], Env: ec, Uniform: true}) {
				lattice[fmt.Sprintf("env.pos%d", pos)]++
			}
		}
	}
	// (5) name collisions between the env lattice and the vars lattice; quick:
	// one position per scenario (round-robin), thorough: all three
	for i, ec := range envCollisions() {
		if ec.Decoy {
			continue
		}
		for pos := 0; pos < 3; pos++ {
			if !h.Thorough() && pos != i%3 {
				continue
			}
			if add(&scenario{Family: "env", Pos: pos, Name: "PE_" + name[3:], Env: ec, Uniform: true}) {
				lattice[fmt.Sprintf("env.collision.pos%d", pos)]++
			}
		}
	}
	return list, lattice
}

// ---------------------------------------------------------------------------
// observation and judgement

// chain splits "a(b(c.lit))" into [a b c.lit].
func chain(v string) []string {
	v = strings.TrimRight(v, ")")
	return strings.Split(v, "(")
}

func label(elem string) string {
	if i := strings.IndexByte(elem, '.'); i >= 0 {
		elem = elem[:i]
	}
	for _, n := range siteName {
		if n == elem {
			return n
		}
	}
	for _, n := range envSiteNames {
		if n == elem {
			return n
		}
	}
	switch elem {
	case "none", "unset", "fallback", "sibling", "otherpath":
		return elem
	case "procenv-empty":
		return "procenv(empty)"
	}
	return "other"
}

func probe(out, tag string) (string, bool) {
	for _, l := range strings.Split(out, "\n") {
		if strings.HasPrefix(l, tag+"|") && strings.HasSuffix(l, "|") && len(l) >= len(tag)+2 {
			return l[len(tag)+1 : len(l)-1], true
		}
	}
	return "", false
}

type verdict struct {
	ok   bool
	sig  string
	what string
}

// judgeChain compares "site.kind" / "site(inner.kind)" values. The signature
// names the site whose value was seen, the site the documented order gives,
// and who was looking (the probe in the task's command, or the template
// inside the definition at a site).
func judgeChain(id, family, expected, observed string) verdict {
	if expected == observed {
		return verdict{ok: true}
	}
	e, o := chain(expected), chain(observed)
	j := 0
	for j < len(e) && j < len(o) && e[j] == o[j] {
		j++
	}
	// Readers are classed for the signature: the probe and the templates in
	// task vars / call vars are all evaluated in the scope of the running task
	// ("task"), so a plain inversion of two sites gets one signature however it
	// was seen; a template in a Taskfile-level definition (include statement,
	// included file, global) is its own reader, and for it the kind of the
	// wanted definition is part of the pattern (dynamic or not).
	reader, class := "probe", "task"
	if j > 0 {
		reader = "template@" + label(e[j-1])
		if l := label(e[j-1]); l != "taskvars" && l != "callvars" {
			class = reader
		}
	}
	le, lo := "end", "end"
	if j < len(e) {
		le = label(e[j])
		if strings.HasSuffix(e[j], ".sh") && class != "task" {
			le += "(sh)"
		}
	}
	if j < len(o) {
		lo = label(o[j])
	}
	return verdict{sig: fmt.Sprintf("%s | %s | reader=%s | got=%s want=%s", id, family, class, lo, le),
		what: fmt.Sprintf("%s saw the value defined at %q, the documented order gives the one defined at %q (observed %q, expected %q)", reader, lo, le, observed, expected)}
}

func (sc *scenario) judge(id, proj, bin string, res h.Result) (v verdict, observed string, judged bool) {
	val, ok := probe(res.Stdout, "P")
	if sc.Family == "env" {
		val, ok = probe(res.Stdout, "E")
	}
	if !ok {
		return verdict{}, "", false
	}
	observed = val
	if sc.Family == "special" && len(sc.Defs) == 0 {
		return sc.judgeSpecial(id, proj, bin, val, res), val, true
	}
	if sc.Family == "special" && label(chain(val)[0]) == "other" {
		// an override was defined, the built-in value was seen
		return verdict{sig: fmt.Sprintf("%s | special | %s | built-in value shadows definition at %s", id, sc.Name, siteName[sc.Defs[0].Site]),
			what: fmt.Sprintf("special variable %s is defined at %s but the template saw %q", sc.Name, siteName[sc.Defs[0].Site], val)}, val, true
	}
	if sc.SibAt != nil {
		if val == sc.expected {
			return verdict{ok: true}, val, true
		}
		got := "other"
		if c := chain(val); len(c) == 2 && c[0] == "sibling" {
			got = label(c[1])
		}
		d, _ := sc.def(*sc.SibAt)
		return verdict{sig: fmt.Sprintf("%s | sibling | tier=%s kind=%s | got=%s", id, siteName[*sc.SibAt], kindName[d.Kind], got),
			what: fmt.Sprintf("a variable defined at %s as a template over its sibling %s (%s at the same tier, redefined at a higher tier) is %q, the tier's own value gives %q", siteName[*sc.SibAt], sc.Name, kindName[d.Kind], val, sc.expected)}, val, true
	}
	fam := "vars"
	if sc.Family == "env" {
		fam = "env experiment=" + map[bool]string{false: "off", true: "on"}[sc.Env.Experiment]
		if val == "" {
			val = "procenv-empty"
		}
		v := judgeChain(id, fam, sc.expected, val)
		// the command of a dynamic (sh:) variable is a command too: with the
		// experiment off the process environment wins there as well. What it
		// sees when the process environment does not define the name is not
		// stated (task env is not in scope of task vars) and is not judged.
		if v.ok && sc.Env.Proc != 0 && !sc.Env.Experiment {
			if sv, ok := probe(res.Stdout, "S"); ok {
				if sv == "" {
					sv = "procenv-empty"
				}
				if sv != sc.Env.procValue() {
					lo := label(sv)
					return verdict{sig: fmt.Sprintf("%s | %s | reader=sh-variable | got=%s want=%s", id, fam, lo, label(sc.Env.procValue())),
						what: fmt.Sprintf("the command of a dynamic variable saw %q for a name the process environment sets to %q", sv, sc.Env.procValue())}, val + " sh:" + sv, true
				}
			}
		}
		return v, val, true
	}
	return judgeChain(id, fam, sc.expected, val), val, true
}

// judgeSpecial: no site defines the special variable: it must be available,
// and for the names whose documented meaning is unambiguous, have that value.
func (sc *scenario) judgeSpecial(id, proj, bin, val string, res h.Result) verdict {
	if val == "" || val == "unset" {
		return verdict{sig: fmt.Sprintf("%s | special | %s | not available", id, sc.Name),
			what: fmt.Sprintf("special variable %s is empty/unset in a task at include depth %d", sc.Name, sc.Pos)}
	}
	task := posTaskPrefix[sc.Pos] + "target"
	file := filepath.Join(proj, filepath.FromSlash(posFile[sc.Pos]))
	want := ""
	switch sc.Name {
	case "TASK", "ALIAS":
		want = task
	case "ROOT_DIR":
		want = proj
	case "TASKFILE":
		want = file
	case "TASKFILE_DIR":
		want = filepath.Dir(file)
	case "USER_WORKING_DIR":
		want = filepath.Join(proj, "sub")
	case "TASK_DIR":
		if d, ok := probe(res.Stdout, "D"); ok {
			want = d
		}
	}
	if want != "" && val != want {
		return verdict{sig: fmt.Sprintf("%s | special | %s | value", id, sc.Name),
			what: fmt.Sprintf("special variable %s = %q, documented meaning gives %q (include depth %d)", sc.Name, strings.ReplaceAll(val, proj, "<proj>"), strings.ReplaceAll(want, proj, "<proj>"), sc.Pos)}
	}
	return verdict{ok: true}
}

// ---------------------------------------------------------------------------

// Run is the entry point of the check.
func Run(id string, start time.Time) int {
	scratch := h.Scratch(id)
	defer os.RemoveAll(scratch)
	if p, err := filepath.EvalSymlinks(scratch); err == nil {
		scratch = p
	}
	bin, err := h.BuildCLI(scratch)
	if err != nil {
		fmt.Fprintln(os.Stderr, err)
		return 2
	}
	capDir := filepath.Join(scratch, "capture")
	if err := os.MkdirAll(capDir, 0o755); err != nil {
		fmt.Fprintln(os.Stderr, err)
		return 2
	}
	list, lattice := generate()
	part := h.NewPartial()
	workers := runtime.NumCPU()
	if workers > 16 {
		workers = 16
	}
	h.Parallel(len(list), workers, func(i int) {
		sc := list[i]
		proj := filepath.Join(scratch, fmt.Sprintf("c%05d", i))
		if sc.Family == "env" {
			sc.buildEnv()
		} else {
			sc.build(bin)
		}
		if err := h.WriteTree(proj, sc.files); err != nil {
			part.Inconc(fmt.Sprintf("case %s: %v", sc.key(), err))
			return
		}
		defer os.RemoveAll(proj)
		res := runCLI(h.CLI{Bin: bin, Dir: filepath.Join(proj, sc.cwd), Args: sc.args, Env: sc.env, Timeout: 120 * time.Second}, filepath.Join(capDir, fmt.Sprintf("c%05d", i)))
		if !res.TimedOut && res.Exit == 0 && res.Stdout == "" && res.Stderr == "" {
			// exit 0 without a byte of output although the child wrote to files
			// directly: not a harness artefact any more; counted, and left
			// inconclusive below (no probe line)
			part.Count("silent_exit0_runs", 1)
		}
		nontrivial := len(sc.Defs)+len(sc.Comp) >= 2 || (sc.Family == "env" && sc.Env.count()+len(sc.Env.VarSites) >= 2) || (sc.Family == "special" && len(sc.Defs) == 0)
		part.Eval(sc.key(), nontrivial)
		part.Count("cli_runs", 1)
		part.Count("runs."+sc.Family, 1)
		if res.TimedOut {
			part.Inconc(fmt.Sprintf("case %s: watchdog", sc.key()))
			return
		}
		v, observed, judged := sc.judge(id, proj, bin, res)
		rec := map[string]any{
			"family": sc.Family, "position": sc.Pos, "name": sc.Name, "case": sc.key(), "args": sc.args, "env": sc.env, "cwd": sc.cwd,
			"expected": sc.expected, "observed": observed, "exit": res.Exit,
		}
		if !judged {
			// no probe line: the run failed before the probe; not a precedence observation
			part.Count("runs_without_probe", 1)
			part.Inconc(fmt.Sprintf("case %s: no probe output, exit %d, stderr %s", sc.key(), res.Exit, h.Truncate(strings.ReplaceAll(res.Stderr, proj, "<proj>"), 300)))
			return
		}
		part.Count("probes_observed", 1)
		part.SetAdd("winning_sites", label(chain(observed)[0]))
		if sc.idx%97 == 0 {
			s := map[string]any{}
			for k, vv := range rec {
				s[k] = vv
			}
			s["files"] = sc.files
			part.Sample(s, 6)
		}
		if v.ok {
			part.Count("held", 1)
			return
		}
		w := map[string]string{}
		for n, c := range sc.files {
			w["project/"+n] = c
		}
		rec["stdout"] = res.Stdout
		rec["stderr"] = strings.ReplaceAll(res.Stderr, proj, "<proj>")
		rec["seed"] = h.Seed()
		rec["tier"] = h.Tier()
		rec["repro"] = fmt.Sprintf("cd project/%s && env -i PATH=/usr/bin:/bin %s task %s", sc.cwd, strings.Join(sc.env, " "), strings.Join(sc.args, " "))
		b, _ := json.MarshalIndent(rec, "", " ")
		w["case.json"] = string(b)
		part.Violation(v.sig, v.what, w)
	})
	yes := true
	rep := h.Report{
		ID: id, Level: "exploration", Start: start, MinEvents: 500, EventsKey: "probes_observed", Exhaustive: &yes,
		Rule: "one case = one CLI run in a generated project; the probed name is defined at a subset of the definition sites, each definition carrying a value that names its site and kind, the probe prints {{.NAME}} (or $NAME for the env lattice) and the oracle compares with the value the documented order gives. A template-kind definition at site s is 's({{.L_s}})' where the companion L_s is defined (literal or sh:) at a subset of the lower-priority sites, so the value also shows which definition the template inside the winning definition saw. " +
			"Enumerated exhaustively (exhaustive=true refers to this sub-space): template variables: every subset of {task vars, call vars, included-Taskfile vars, include-statement vars, OS env} x {no global, root Taskfile global, CLI NAME=value} x uniform kind {literal, sh, ref} x task position {root, include depth 1, depth 2} (sites that do not exist for a position dropped, duplicates removed); template kind: position x winning site w (template) x every subset C of the lower-priority sites defining the companion x companion kind {literal, sh} x {name defined at w only, also at C}; refer-back: position x {task vars, call vars} defining the name as a template over the same name ('site({{.N | default \"none\"}})' and the documented idiom '{{.N | default \"fallback\"}}') x each lower site (literal / sh) x {nothing, OS env} below it; sibling: position x tier L in {root globals, included-file vars} defining the name (literal / sh) and a sibling template over it x {no, each single, all} higher sites redefining the name, the probe reads the sibling; special variables: 10 names x position x every subset of the Taskfile/CLI sites (literal) in the thorough tier, in the quick tier every subset for 3 seed-chosen names and {} plus singletons for the other 7; env: every subset of {task env, task dotenv file 1, file 2} x process env {unset, set, set to the empty string} x {no global, global env, global dotenv} x {experiment off, on} x kind {literal, sh} x position; env/vars name collisions: the literal env lattice x a variable of the same name at {task vars}, {call vars}, {root globals}, {CLI}, {task, call, root globals} (the command's $NAME is judged by the env order only; quick: one position per scenario, thorough: all); twice-included middle file (positions depth2-twice-a/z: the root includes the middle Taskfile under two namespaces with different include-statement vars, the probed task's path must see its own): every subset x literal kind in the quick tier, all kinds and the template lattice in the thorough tier. " +
			"Seeded: mixed-kind scenarios (each site independently present with p=0.6, kind uniform). distinct key = (family, position, name, site.kind list); non-trivial = at least two definitions are in play (of the name, or of the name and the companion its template reads: a precedence or visibility decision is made) or, for special variables, no site defines it (availability is decided).",
		Assumptions: []string{
			"a root Taskfile global and a CLI assignment of one name, an intermediate include's vars at depth 2, global env vs global dotenv of one name, and the OS environment vs a special variable are not ordered by the statement/documentation and are never both defined",
			"values are plain ASCII words; quoting is C19's subject",
			"one CLI process per scenario, so the sh: result cache (C11) cannot leak between scenarios",
		},
		Extra: map[string]any{"exhaustive_subspace_sizes": lattice, "scenarios": len(list)},
	}
	return h.Finish(rep, part)
}
