// Command worker is the in-process half of the C08 check: it links the code
// under test, loads ONE generated tree with the real Executor and compares the
// merged task table with the definitions. It runs as a child of the check so
// that a panic or a deadlock of the code under test is an observation of the
// driver, never the end of the check.
//
//	worker <tree.json> <project dir> <out.json>
package main

import (
	"encoding/json"
	"fmt"
	"os"
	"os/signal"
	"syscall"

	"github.com/go-task/task/v3/verifh/p08"
)

func main() {
	if len(os.Args) < 4 {
		fmt.Fprintln(os.Stderr, "usage: worker tree.json dir out.json")
		os.Exit(2)
	}
	if os.Getenv("P08_NOTIFY") != "" {
		// test knob: a registered signal handler switches the runtime's own deadlock
		// detector off, so that a deadlock becomes a real hang (watchdog + SIGQUIT path)
		signal.Notify(make(chan os.Signal, 1), syscall.SIGUSR1)
	}
	b, err := os.ReadFile(os.Args[1])
	if err != nil {
		fmt.Fprintln(os.Stderr, err)
		os.Exit(2)
	}
	var t p08.Tree
	if err := json.Unmarshal(b, &t); err != nil {
		fmt.Fprintln(os.Stderr, err)
		os.Exit(2)
	}
	out := p08.TableChild(&t, os.Args[2])
	ob, _ := json.Marshal(out)
	if err := os.WriteFile(os.Args[3], ob, 0o644); err != nil {
		fmt.Fprintln(os.Stderr, err)
		os.Exit(2)
	}
}
