package p08

import (
	"bytes"
	"fmt"
	"os"
	"path/filepath"
	"reflect"
	"runtime/debug"
	"sort"
	"strings"
	"sync"
	"time"

	"gopkg.in/yaml.v3"

	"github.com/go-task/task/v3"
	"github.com/go-task/task/v3/taskfile/ast"
)

// Finding is one disagreement between the model and the observed system.
type Finding struct {
	Sig  string `json:"sig"`
	What string `json:"what"`
}

// fields of ast.Task that the merge itself populates; they have no documented
// meaning of their own (their effect, the include's vars, is judged by the probes)
var mergePopulated = map[string]bool{"Namespace": true, "IncludeVars": true, "IncludedTaskfileVars": true}

var (
	fieldMu      sync.Mutex
	fieldNonZero = map[string]int64{} // exported field of ast.Task -> definitions in which it was non-zero (included tasks only)
	fieldCmp     = map[string]int64{} // exported field -> comparisons made
	opaqueTypes  = map[string]bool{}
)

var (
	varsType   = reflect.TypeOf(&ast.Vars{})
	matrixType = reflect.TypeOf(&ast.Matrix{})
	cmdType    = reflect.TypeOf(ast.Cmd{})
	depType    = reflect.TypeOf(ast.Dep{})
)

// render is a canonical text of a value: exported fields only, maps key-sorted,
// nil and empty collections alike; rw rewrites the Task reference of ast.Cmd
// and ast.Dep values (nil = identity).
func render(v reflect.Value, rw func(string) string) string {
	var b strings.Builder
	renderTo(&b, v, rw)
	return b.String()
}

func renderTo(b *strings.Builder, v reflect.Value, rw func(string) string) {
	if !v.IsValid() {
		b.WriteString("nil")
		return
	}
	switch v.Type() {
	case varsType:
		b.WriteString("vars{")
		if !v.IsNil() {
			vs := v.Interface().(*ast.Vars)
			for k, x := range vs.All() {
				b.WriteString(k + ": ")
				renderTo(b, reflect.ValueOf(x), rw)
				b.WriteString("; ")
			}
		}
		b.WriteString("}")
		return
	case matrixType:
		b.WriteString("matrix{")
		if !v.IsNil() {
			mx := v.Interface().(*ast.Matrix)
			for k, row := range mx.All() {
				b.WriteString(k + ": ")
				renderTo(b, reflect.ValueOf(row), rw)
				b.WriteString("; ")
			}
		}
		b.WriteString("}")
		return
	}
	switch v.Kind() {
	case reflect.Interface, reflect.Pointer:
		if v.IsNil() {
			b.WriteString("nil")
			return
		}
		renderTo(b, v.Elem(), rw)
	case reflect.Struct:
		t := v.Type()
		exported := 0
		b.WriteString(t.Name() + "{")
		for i := 0; i < t.NumField(); i++ {
			f := t.Field(i)
			if !f.IsExported() {
				continue
			}
			exported++
			b.WriteString(f.Name + ": ")
			if rw != nil && f.Name == "Task" && (t == cmdType || t == depType) && v.Field(i).String() != "" {
				fmt.Fprintf(b, "%q", rw(v.Field(i).String()))
			} else {
				renderTo(b, v.Field(i), rw)
			}
			b.WriteString(", ")
		}
		if exported == 0 && t.NumField() > 0 {
			fieldMu.Lock()
			opaqueTypes[t.String()] = true
			fieldMu.Unlock()
			b.WriteString("<opaque>")
		}
		b.WriteString("}")
	case reflect.Map:
		keys := v.MapKeys()
		ks := make([]string, len(keys))
		idx := map[string]reflect.Value{}
		for i, k := range keys {
			ks[i] = render(k, nil)
			idx[ks[i]] = v.MapIndex(k)
		}
		sort.Strings(ks)
		b.WriteString("map{")
		for _, k := range ks {
			b.WriteString(k + ": ")
			renderTo(b, idx[k], rw)
			b.WriteString(", ")
		}
		b.WriteString("}")
	case reflect.Slice, reflect.Array:
		b.WriteString("[")
		for i := 0; i < v.Len(); i++ {
			renderTo(b, v.Index(i), rw)
			b.WriteString(", ")
		}
		b.WriteString("]")
	case reflect.String:
		fmt.Fprintf(b, "%q", v.String())
	default:
		fmt.Fprintf(b, "%v", v.Interface())
	}
}

func nonZero(v reflect.Value) bool {
	switch v.Kind() {
	case reflect.Slice, reflect.Map:
		return v.Len() > 0
	case reflect.Pointer:
		if v.IsNil() {
			return false
		}
		if v.Type() == varsType {
			return v.Interface().(*ast.Vars).Len() > 0
		}
		return true
	}
	return !v.IsZero()
}

// Setup loads the tree in-process with the real Executor.
func Setup(dir string) (e *task.Executor, err error) {
	defer func() {
		// the code under test runs in this process: a panic in it is an observation, not the end of the check
		if r := recover(); r != nil {
			err = &PanicError{Value: fmt.Sprint(r), Stack: string(debug.Stack())}
		}
	}()
	return setup(dir)
}

// PanicError is a panic of the code under test during Setup.
type PanicError struct{ Value, Stack string }

func (p *PanicError) Error() string { return "panic: " + p.Value }

func setup(dir string) (*task.Executor, error) {
	var so, se bytes.Buffer
	e := task.NewExecutor()
	e.Dir = dir
	e.UserWorkingDir = dir
	e.Stdout, e.Stderr = &so, &se
	if dn, err := os.Open(os.DevNull); err == nil {
		e.Stdin = dn
		defer dn.Close()
	}
	e.Timeout = time.Minute
	e.TempDir = task.TempDir{Remote: filepath.Join(dir, ".task"), Fingerprint: filepath.Join(dir, ".task")}
	err := e.Setup()
	return e, err
}

// CheckTable compares the merged table of the real Executor with the
// definitions modulo the documented rewrites, every exported field of ast.Task.
func CheckTable(m *Model, e *task.Executor) (out []Finding, compared int64) {
	t := m.T
	// the definitions: each file parsed on its own
	defs := make([]*ast.Taskfile, len(t.Files))
	for i, f := range t.Files {
		var tf ast.Taskfile
		if err := yaml.Unmarshal([]byte(f.Text), &tf); err != nil {
			out = append(out, Finding{"C08 | harness | definition-unparsable", fmt.Sprintf("file %s does not parse on its own: %v", f.Path, err)})
			return out, 0
		}
		defs[i] = &tf
	}
	got := map[string]*ast.Task{}
	for name, tk := range e.Taskfile.Tasks.All(nil) {
		got[name] = tk
	}
	want := map[string]*Inst{}
	for _, in := range m.Insts {
		want[in.Name] = in
	}
	tags := func(in *Inst) string {
		flat := false
		for _, c := range in.Chain {
			flat = flat || c.Flatten
		}
		return fmt.Sprintf("depth=%d flatten=%v", len(in.Chain), flat)
	}
	var names []string
	for n := range want {
		names = append(names, n)
	}
	sort.Strings(names)
	for _, n := range names {
		if _, ok := got[n]; !ok {
			out = append(out, Finding{"C08 | table.names | missing " + tags(want[n]), fmt.Sprintf("task %q (definition %s#%s) is missing from the merged table", n, t.Files[want[n].File].ID, want[n].T.Name)})
		}
	}
	var extra []string
	for n := range got {
		if _, ok := want[n]; !ok {
			extra = append(extra, n)
		}
	}
	sort.Strings(extra)
	for _, n := range extra {
		out = append(out, Finding{"C08 | table.names | extra", fmt.Sprintf("the merged table has a task %q that no definition accounts for", n)})
	}
	typ := reflect.TypeOf(ast.Task{})
	for _, n := range names {
		in := want[n]
		mt, ok := got[n]
		if !ok {
			continue
		}
		d, ok := defs[in.File].Tasks.Get(in.T.Name)
		if !ok || d == nil {
			continue
		}
		where := "root"
		if len(in.Chain) > 0 {
			where = "included"
		}
		rw := in.ResolveName
		mv, dv := reflect.ValueOf(*mt), reflect.ValueOf(*d)
		for i := 0; i < typ.NumField(); i++ {
			f := typ.Field(i)
			if !f.IsExported() || mergePopulated[f.Name] {
				continue
			}
			var exp, obs string
			switch f.Name {
			case "Task":
				exp, obs = fmt.Sprintf("%q", in.Name), render(mv.Field(i), nil)
			case "Aliases":
				if in.AliasFree {
					continue
				}
				a, b := cp(in.Aliases), cp(mt.Aliases)
				sort.Strings(a)
				sort.Strings(b)
				exp, obs = strings.Join(a, " "), strings.Join(b, " ")
			case "Internal":
				exp, obs = fmt.Sprint(in.Internal), fmt.Sprint(mt.Internal)
			case "Dir":
				w, ok := m.WorkDir(in)
				if !ok {
					continue
				}
				exp = w
				obs = mt.Dir
				if !filepath.IsAbs(obs) {
					obs = filepath.Join(m.Root, obs)
				}
			case "Location":
				loc := ast.Location{}
				if d.Location != nil {
					loc = *d.Location
				}
				loc.Taskfile = filepath.Join(m.Root, t.Files[in.File].Path)
				exp, obs = render(reflect.ValueOf(loc), nil), render(mv.Field(i), nil)
			case "Deps", "Cmds":
				exp, obs = render(dv.Field(i), rw), render(mv.Field(i), nil)
			default:
				exp, obs = render(dv.Field(i), nil), render(mv.Field(i), nil)
			}
			compared++
			fieldMu.Lock()
			fieldCmp[f.Name]++
			if len(in.Chain) > 0 && nonZero(dv.Field(i)) {
				fieldNonZero[f.Name]++
			}
			fieldMu.Unlock()
			if exp != obs {
				w := where
				if (f.Name == "Deps" || f.Name == "Cmds") && len(in.Chain) > 0 {
					w = refKindOfFirstDiff(dv.Field(i), mv.Field(i), rw) + " " + in.ChainTag()
				}
				out = append(out, Finding{fmt.Sprintf("C08 | table.field | %s | %s", f.Name, w),
					fmt.Sprintf("task %q (definition %s#%s, %s): field %s of the merged task differs from its definition:\n  expected %s\n  observed %s",
						n, t.Files[in.File].ID, in.T.Name, tags(in), f.Name, exp, obs)})
			}
		}
	}
	return out, compared
}

// TaskFields lists the exported fields of ast.Task.
func TaskFields() []string {
	var l []string
	typ := reflect.TypeOf(ast.Task{})
	for i := 0; i < typ.NumField(); i++ {
		if typ.Field(i).IsExported() {
			l = append(l, typ.Field(i).Name)
		}
	}
	return l
}

// refKindOfFirstDiff names the kind of reference carried by the first element
// of a Deps/Cmds list that differs from its definition.
func refKindOfFirstDiff(def, got reflect.Value, rw func(string) string) string {
	if def.Len() != got.Len() {
		return "length"
	}
	for i := 0; i < def.Len(); i++ {
		if render(def.Index(i), rw) == render(got.Index(i), nil) {
			continue
		}
		e := def.Index(i)
		for e.Kind() == reflect.Pointer && !e.IsNil() {
			e = e.Elem()
		}
		if e.Kind() != reflect.Struct {
			return "element"
		}
		ref := e.FieldByName("Task")
		if !ref.IsValid() || ref.String() == "" {
			return "no-ref"
		}
		switch {
		case strings.HasPrefix(ref.String(), ":"):
			return "root-ref"
		case strings.Contains(ref.String(), ":"):
			return "child-ref"
		}
		return "local-ref"
	}
	return "element"
}

// TableResult is what the table worker (a child process) reports for one tree.
type TableResult struct {
	ModelErr     string           `json:"model_err"`
	SetupErr     string           `json:"setup_err"`
	SetupErrType string           `json:"setup_err_type"`
	Panic        string           `json:"panic"`
	Stack        string           `json:"stack"`
	Findings     []Finding        `json:"findings"`
	Compared     int64            `json:"compared"`
	Tasks        int              `json:"tasks"`
	FieldCmp     map[string]int64 `json:"field_cmp"`
	FieldNonZero map[string]int64 `json:"field_nonzero"`
	Opaque       []string         `json:"opaque"`
}

// TableChild runs in the worker process: model, Setup, table comparison.
func TableChild(t *Tree, dir string) *TableResult {
	r := &TableResult{}
	m := NewModel(t, dir)
	r.ModelErr = m.Err
	e, err := Setup(dir)
	if err != nil {
		r.SetupErr = err.Error()
		r.SetupErrType = fmt.Sprintf("%T", err)
		if pe, ok := err.(*PanicError); ok {
			r.Panic, r.Stack = pe.Value, pe.Stack
		}
		return r
	}
	if m.Err != "" {
		return r
	}
	r.Findings, r.Compared = CheckTable(m, e)
	r.Tasks = len(m.Insts)
	// a parent with many include entries: the reader handles them concurrently, so the same tree is loaded again
	// and again and every load must deliver the same, complete table
	many := false
	for _, f := range t.Files {
		if len(f.Incs) >= 8 {
			many = true
		}
	}
	if many {
		seen := map[string]bool{}
		for _, f := range r.Findings {
			seen[f.Sig+f.What] = true
		}
		for k := 0; k < 60; k++ {
			e2, err := Setup(dir)
			if err != nil {
				r.Findings = append(r.Findings, Finding{"C08 | table.reload | error", fmt.Sprintf("load %d of the same tree failed although the first one succeeded: %v", k+2, err)})
				break
			}
			fs, _ := CheckTable(m, e2)
			for _, f := range fs {
				if !seen[f.Sig+f.What] {
					seen[f.Sig+f.What] = true
					r.Findings = append(r.Findings, f)
				}
			}
		}
	}
	fieldMu.Lock()
	defer fieldMu.Unlock()
	r.FieldCmp, r.FieldNonZero = fieldCmp, fieldNonZero
	for k := range opaqueTypes {
		r.Opaque = append(r.Opaque, k)
	}
	return r
}
