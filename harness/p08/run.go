package p08

import (
	"encoding/json"
	"fmt"
	"os"
	"os/exec"
	"path/filepath"
	"sort"
	"strings"
	"sync"
	"time"

	"github.com/go-task/task/v3/verifh/h"
	"github.com/go-task/task/v3/verifh/p08/hang"
)

// Watchdogs are generous and never decide anything by themselves: when one
// fires the child's goroutine dump is judged (package hang).
const (
	cliWatchdog   = 40 * time.Second
	childWatchdog = 90 * time.Second
)

// tableChild runs the table worker on one tree.
func tableChild(worker, scratch string, t *Tree, dir string) (*TableResult, hang.Result, string) {
	tj := filepath.Join(scratch, fmt.Sprintf("t%04d.json", t.Index))
	oj := filepath.Join(scratch, fmt.Sprintf("t%04d.out.json", t.Index))
	b, _ := json.Marshal(t)
	os.WriteFile(tj, b, 0o644)
	defer os.Remove(tj)
	defer os.Remove(oj)
	cmd := exec.Command(worker, tj, dir, oj)
	cmd.Dir = dir
	cmd.Env = append(h.BaseEnv(dir), "P08_NOTIFY="+os.Getenv("P08_NOTIFY"))
	hr := hang.Run(cmd, childWatchdog)
	if hr.Fired || hr.RuntimeDeadlock {
		return nil, hr, ""
	}
	rb, err := os.ReadFile(oj)
	if err != nil || hr.Exit != 0 {
		return nil, hr, fmt.Sprintf("exit %d, %s", hr.Exit, h.Truncate(hr.Stderr, 1500))
	}
	var tr TableResult
	if err := json.Unmarshal(rb, &tr); err != nil {
		return nil, hr, "unreadable worker output: " + err.Error()
	}
	return &tr, hr, ""
}

// hangVerdict turns a fired watchdog into a verdict from the goroutine dump:
// a deadlock of the code under test is a violation, anything else inconclusive.
func hangVerdict(part *h.Partial, report func(Finding, map[string]any), t *Tree, r hang.Result, what, kind string) {
	if r.Fired {
		part.Count("watchdogs_fired", 1)
	} else {
		part.Count("runtime_deadlocks", 1)
	}
	if r.Deadlock {
		report(Finding{"C08 | hang | " + kind + " | " + r.Frame, fmt.Sprintf("%s never returned: %s; blocked at %s", what, r.Why, r.Frame)},
			map[string]any{"expected": "an error and a non-zero exit", "goroutine_dump": h.Truncate(r.Dump, 12000)})
		return
	}
	part.Inconc(fmt.Sprintf("tree %d (%s): watchdog fired on %s; the goroutine dump does not show a deadlock (%s)", t.Index, t.Kind, what, r.Why))
}

const rule = "programs: seeded include trees of profile incl (depth <= 3, 1-3 includes per file, diamonds, the same file under two namespaces, Taskfiles in the root and in sub directories, include by file and by directory); include options {dir, optional(+missing file), internal, flatten, aliases, excludes, vars}: the empty set, every single option, all 21 pairs, then random triples, dealt to the include entries in that order; every file has tasks default/build/test/helper/excl/up with the SAME local names in every file (files meant to be flattened carry the file id in their task names), deps and task: references between them, ':'-prefixed references to the root's helper/rootonly, and one attribute carrier task that sets every YAML key of a task (never run). Fault trees: include cycles (self, 2, 3), missing non-optional file (depth 1 and deeper), schema version mismatch, an included file without version, flatten name conflicts (with the parent, between siblings), a parent task named like a namespaced included task; each kind plain and with the fault 1 and 2 include levels BELOW an include marked optional whose file exists (optional excuses only a missing file). Every sixth tree has a forced diamond (two short-form siblings including one common file in the long form with different dir and vars); every file has a dynamic variable DV (sh: pwd). " +
	"oracle: the include model of DESIGN Appendix C written from the documentation. (1) structural: after Setup in-process the key set of e.Taskfile.Tasks equals the model's name set and every exported field of ast.Task (enumerated by reflection) of every merged task equals its definition modulo the documented rewrites (name, deps/call targets, aliases, internal, dir, location); (2) behavioural: every callable name and alias is run through the rebuilt CLI; the multiset of probe lines ORIGIN=<file>#<task> TASK PWD FV IV DV must equal the model's trace (deps and task: references followed, ':' bound to the root Taskfile), internal names must fail and run nothing, --list-all --json must list exactly the non-internal names; fault trees must exit non-zero with no probe line. " +
	"a case is one (tree, name) run, one listing, one structural comparison or one fault tree; non-trivial = the name denotes an included task (depth >= 1) or the case is a fault tree; distinct by (hash of the tree's files, name)."

type obsLine struct {
	Origin, Task, PWD, FV, IV, DV string
	AV                            []string
	raw                           string
	used                          bool
}

func parseLines(stdout string) []*obsLine {
	var out []*obsLine
	for _, l := range strings.Split(stdout, "\n") {
		if !strings.HasPrefix(l, "ORIGIN=") {
			continue
		}
		o := &obsLine{raw: l}
		for _, f := range strings.Fields(l) {
			k, v, _ := strings.Cut(f, "=")
			switch k {
			case "ORIGIN":
				o.Origin = v
			case "TASK":
				o.Task = v
			case "PWD":
				o.PWD = v
			case "FV":
				o.FV = v
			case "IV":
				o.IV = v
			case "DV":
				o.DV = v
			case "AV":
				if v = strings.TrimSuffix(strings.TrimPrefix(v, "["), "]"); v != "" {
					o.AV = strings.Split(v, ",")
				}
			}
		}
		out = append(out, o)
	}
	return out
}

// avWrong reports an outer include variable that carries the value of ANOTHER include statement (an empty
// value is not judged: whether the variables of an outer include statement reach tasks included further
// down is not documented).
func avWrong(e Line, o *obsLine) (int, bool) {
	for k, want := range e.AV {
		if want == "*" || k >= len(o.AV) {
			continue
		}
		if got := o.AV[k]; got != "" && got != want {
			return k, true
		}
	}
	return 0, false
}

func lineTags(e Line) string {
	return fmt.Sprintf("via=%s referrer: %s", e.Via, e.RefChain)
}

// match compares the observed probe lines with the expected multiset.
func match(exp []Line, obs []*obsLine) []Finding {
	var out []Finding
	find := func(pred func(o *obsLine) bool) *obsLine {
		for _, o := range obs {
			if !o.used && pred(o) {
				return o
			}
		}
		return nil
	}
	var rest []Line
	// exact matches first
	for _, e := range exp {
		o := find(func(o *obsLine) bool {
			return o.Origin == e.Origin && o.Task == e.Task && (e.PWD == "*" || o.PWD == e.PWD) && o.FV == e.FV && (e.IV == "*" || o.IV == e.IV) && (e.DV == "*" || o.DV == e.DV) && func() bool { _, w := avWrong(e, o); return !w }()
		})
		if o != nil {
			o.used = true
		} else {
			rest = append(rest, e)
		}
	}
	for _, e := range rest {
		if o := find(func(o *obsLine) bool { return o.Origin == e.Origin && o.Task == e.Task }); o != nil {
			o.used = true
			switch {
			case e.PWD != "*" && o.PWD != e.PWD:
				out = append(out, Finding{fmt.Sprintf("C08 | run.pwd | depth=%d flatten=%v", e.Depth, e.Flat), fmt.Sprintf("task %s (%s) ran in %s, expected %s", e.Task, e.Origin, o.PWD, e.PWD)})
			case o.FV != e.FV:
				out = append(out, Finding{fmt.Sprintf("C08 | run.file-var | depth=%d", e.Depth), fmt.Sprintf("task %s (%s) saw FV=%q, expected %q", e.Task, e.Origin, o.FV, e.FV)})
			case func() bool { _, w := avWrong(e, o); return w }() && (e.IV == "*" || o.IV == e.IV) && (e.DV == "*" || o.DV == e.DV):
				k, _ := avWrong(e, o)
				out = append(out, Finding{fmt.Sprintf("C08 | run.outer-include-var | depth=%d flatten=%v", e.Depth, e.Flat), fmt.Sprintf("task %s (%s) saw %q for the variable of an include statement further out, which is the value of another include statement; its own chain gives %q", e.Task, e.Origin, o.AV[k], e.AV[k])})
			case e.IV == "*" || o.IV == e.IV:
				out = append(out, Finding{fmt.Sprintf("C08 | run.file-sh-var | depth=%d", e.Depth), fmt.Sprintf("task %s (%s) saw its file's dynamic variable DV=%q (sh: pwd), expected the directory of its own include %q", e.Task, e.Origin, o.DV, e.DV)})
			default:
				out = append(out, Finding{fmt.Sprintf("C08 | run.include-var | depth=%d flatten=%v", e.Depth, e.Flat), fmt.Sprintf("task %s (%s) saw IV=%q, expected the include's %q", e.Task, e.Origin, o.IV, e.IV)})
			}
			continue
		}
		if o := find(func(o *obsLine) bool { return o.Origin == e.Origin }); o != nil {
			o.used = true
			out = append(out, Finding{"C08 | run.instance | " + lineTags(e), fmt.Sprintf("definition %s ran as task %q, expected the instance %q", e.Origin, o.Task, e.Task)})
			continue
		}
		var un []string
		for _, o := range obs {
			if !o.used {
				un = append(un, o.Origin+" (as "+o.Task+")")
			}
		}
		out = append(out, Finding{"C08 | run.binding | " + lineTags(e), fmt.Sprintf("expected a run of %s as %q (reached %s), it did not happen; unexplained runs: %v", e.Origin, e.Task, e.Via, un)})
	}
	if len(out) == 0 {
		for _, o := range obs {
			if !o.used {
				out = append(out, Finding{"C08 | run.extra | -", fmt.Sprintf("unexpected run: %s", o.raw)})
				break
			}
		}
	}
	return out
}

// Run is the C08 check.
func Run(id string, start time.Time) int {
	part := h.NewPartial()
	scratch := h.Scratch(id)
	defer os.RemoveAll(scratch)
	bin, err := h.BuildCLI(scratch)
	if err != nil {
		fmt.Fprintf(os.Stderr, "%s: %v\n", id, err)
		return 2
	}
	// everything that loads generated trees in-process runs in a child: build it against the same repository
	worker := filepath.Join(scratch, "p08worker")
	bargs := []string{"build"}
	if mf := os.Getenv("VERIF_MODFILE"); mf != "" {
		bargs = append(bargs, "-modfile="+mf)
	}
	bc := exec.Command("go", append(bargs, "-o", worker, "./p08/worker")...)
	bc.Dir = filepath.Join(h.VerifDir(), "harness")
	bc.Env = h.GoEnv()
	if b, err := bc.CombinedOutput(); err != nil {
		fmt.Fprintf(os.Stderr, "%s: building the table worker against %s failed: %v\n%s\n", id, h.RepoDir(), err, b)
		return 2
	}
	nOK := h.Pick(70, 700)
	nFault := h.Pick(66, 330)
	maxNames := h.Pick(40, 120)

	// the option sets are dealt to include entries in a fixed order: pairwise first
	sets := OptionSets(h.Rng(8, 1), h.Pick(40, 600))
	var qmu sync.Mutex
	qi := 0
	rq := h.Rng(8, 2)
	next := func() []string {
		qmu.Lock()
		defer qmu.Unlock()
		if qi < len(sets) {
			qi++
			return sets[qi-1]
		}
		// queue exhausted: mostly plain and single-option includes, so that most names stay callable
		switch x := rq.Intn(10); {
		case x < 3:
			return nil
		case x < 6:
			return []string{Options[rq.Intn(len(Options))]}
		}
		return sets[rq.Intn(len(sets))]
	}
	var trees []*Tree
	for i := 0; i < nOK; i++ {
		trees = append(trees, GenOK(h.Rng(8, 10, int64(i)), i, next))
	}
	// every fault kind plain (0) and 1 and 2 include levels below an optional include of an existing file
	for i := 0; i < nFault; i++ {
		fault, below := Faults[i%len(Faults)], (i/len(Faults))%3
		if below == 0 {
			trees = append(trees, GenFault(h.Rng(8, 20, int64(i)), nOK+i, fault, next))
		} else {
			trees = append(trees, GenFaultBelowOptional(h.Rng(8, 20, int64(i)), nOK+i, fault, below, next))
		}
	}

	h.Parallel(len(trees), 16, func(i int) { runTree(part, bin, worker, scratch, trees[i], maxNames) })

	// coverage of the reflection-driven field comparison
	fieldMu.Lock()
	never := []string{}
	for _, f := range TaskFields() {
		if !mergePopulated[f] && fieldNonZero[f] == 0 {
			never = append(never, f)
		}
	}
	opaque := []string{}
	for k := range opaqueTypes {
		opaque = append(opaque, k)
	}
	cmp := map[string]int64{}
	for k, v := range fieldCmp {
		cmp[k] = v
	}
	fieldMu.Unlock()
	sort.Strings(never)
	sort.Strings(opaque)
	if len(never) > 0 {
		// a field the generator never sets cannot be seen to be dropped
		part.Inconc(fmt.Sprintf("exported fields of ast.Task never non-zero in a generated included definition (a drop of these would go unseen): %v", never))
	}
	exh := false
	return h.Finish(h.Report{
		ID: id, Level: "exploration", Rule: rule, Start: start,
		Assumptions: []string{
			"the CLI is rebuilt from the repository's working tree; the structural part links the same packages in-process",
			"working directory is judged only where 'current directory', 'the parent Taskfile directory' and 'the directory of the including Taskfile' coincide (every including file in the project root) and at most the innermost include gives dir; other combinations are printed but not judged (documentation silent)",
			"an include variable is judged only for the instance whose own include entry defines it; whether outer or sibling includes' vars leak is not judged",
			"the alias set of tasks reached through flatten + namespace aliases is not judged (documentation silent)",
			"the file's dynamic variable DV (sh: pwd) is judged only where the include of the defining file is long-form with dir, all outer includes are short-form and all including files are in the project root; expected: the directory given by that include (schema: 'dir: the working directory of the included tasks when run'), i.e. copies of one file under two includes do not see each other's dir; everywhere else it is printed, not judged",
			"Namespace, IncludeVars and IncludedTaskfileVars of ast.Task are populated by the merge itself and are not compared with the definition",
			"the order of the merged table is not part of this oracle (C09)",
			"fault trees: only 'non-zero exit and no probe line' is required; exit codes are recorded, not judged",
		},
		Exhaustive: &exh,
		Extra: map[string]any{
			"ast_task_fields":            TaskFields(),
			"fields_compared":            cmp,
			"fields_never_nonzero":       never,
			"opaque_types_not_compared":  opaque,
			"option_sets_dealt":          qi,
			"option_sets_pairwise_total": 1 + len(Options) + len(Options)*(len(Options)-1)/2,
			"faults":                     Faults,
		},
		MinEvents: int64(nOK), EventsKey: "probe_lines_observed",
	}, part)
}

func witness(t *Tree, extra map[string]any) map[string]string {
	w := map[string]string{}
	for _, f := range t.Files {
		w["project/"+f.Path] = f.Text
	}
	extra["seed"] = h.Seed()
	extra["tier"] = h.Tier()
	extra["tree"] = t.Index
	extra["kind"] = t.Kind
	b, _ := json.MarshalIndent(extra, "", " ")
	w["case.json"] = string(b)
	return w
}

func runTree(part *h.Partial, bin, worker, scratch string, t *Tree, maxNames int) {
	dir := filepath.Join(scratch, fmt.Sprintf("t%04d", t.Index))
	files := map[string]string{}
	for _, f := range t.Files {
		files[f.Path] = f.Text
	}
	for _, f := range t.Files {
		for _, inc := range f.Incs {
			if inc.Dir != "" {
				// the file's dynamic variable runs in the include's dir before any task could create it
				files[filepath.Join(filepath.Dir(f.Path), inc.Dir, ".keep")] = ""
			}
		}
	}
	if err := h.WriteTree(dir, files); err != nil {
		part.Inconc("write: " + err.Error())
		return
	}
	defer os.RemoveAll(dir)
	m := NewModel(t, dir)
	part.SetAdd("tree_kinds", t.Kind)
	for _, f := range t.Files {
		for _, inc := range f.Incs {
			part.Count("include_entries", 1)
			o := cp(inc.Opts)
			sort.Strings(o)
			part.SetAdd("option_sets", strings.Join(o, "+"))
			for i := 0; i < len(o); i++ {
				for j := i + 1; j < len(o); j++ {
					part.SetAdd("option_pairs", o[i]+"+"+o[j])
				}
			}
		}
	}
	report := func(f Finding, extra map[string]any) {
		extra["finding"] = f.What
		part.Violation(f.Sig, fmt.Sprintf("tree %d (%s): %s", t.Index, t.Kind, f.What), witness(t, extra))
	}

	// ---- fault trees: an error, non-zero exit, nothing runs
	if m.Err != "" {
		part.Count("fault_trees", 1)
		below := ""
		if t.BelowOpt > 0 {
			below = " below-optional"
			part.Count("fault_trees_below_optional", 1)
		}
		part.SetAdd("fault_kinds", t.Kind+"=>"+m.Err)
		kind := m.Err + below
		// in-process load, in a child
		tr, chr, cerr := tableChild(worker, scratch, t, dir)
		part.Eval(t.Hash+"|fault", true)
		switch {
		case chr.Fired || chr.RuntimeDeadlock:
			hangVerdict(part, report, t, chr, "Executor.Setup (table worker)", kind)
		case cerr != "":
			report(Finding{"C08 | setup.crash | " + kind, fmt.Sprintf("the tree has a %s (%s); the process that ran Executor.Setup died: %s", m.Err, t.Kind, h.Truncate(cerr, 600))}, map[string]any{"expected": "error", "fault": t.Kind, "stderr": h.Truncate(chr.Stderr, 3000)})
		case tr.Panic != "":
			report(Finding{"C08 | setup.panic | " + kind, fmt.Sprintf("the tree has a %s (%s); Executor.Setup panicked instead of returning an error: %s", m.Err, t.Kind, tr.Panic)}, map[string]any{"expected": "error", "fault": t.Kind, "stack": h.Truncate(tr.Stack, 3000)})
		case tr.SetupErr == "":
			report(Finding{"C08 | error-not-reported | " + kind + " | setup", fmt.Sprintf("the tree has a %s (%s) but Executor.Setup returned no error", m.Err, t.Kind)}, map[string]any{"expected": "error", "fault": t.Kind})
		}
		// the CLI, under the deadlock-judging watchdog
		cmd := exec.Command(bin, "--silent", "default")
		cmd.Dir = dir
		cmd.Env = h.BaseEnv(dir)
		r := hang.Run(cmd, cliWatchdog)
		part.Count("fault_cli_runs", 1)
		if r.Fired || r.RuntimeDeadlock {
			hangVerdict(part, report, t, r, "`task default`", kind)
			return
		}
		part.SetAdd("fault_exit_codes", fmt.Sprintf("%s:%d", m.Err, r.Exit))
		lines := parseLines(r.Stdout)
		if r.Exit == 0 || len(lines) > 0 || r.Crashed() {
			report(Finding{"C08 | error-not-reported | " + kind + " | cli", fmt.Sprintf("the tree has a %s (%s); `task default` exited %d and printed %d probe lines", m.Err, t.Kind, r.Exit, len(lines))},
				map[string]any{"expected": "non-zero exit, no probe line", "exit": r.Exit, "stdout": h.Truncate(r.Stdout, 2000), "stderr": h.Truncate(r.Stderr, 2000)})
		}
		if len(part.Samples) < 4 && t.Index%7 == 0 {
			part.Sample(map[string]any{"tree": t.Index, "fault": t.Kind, "model_error": m.Err, "exit": r.Exit, "stderr": h.Truncate(r.Stderr, 300), "root_taskfile": t.Files[0].Text}, 4)
		}
		return
	}
	if t.Kind != "ok" {
		// the injected fault did not make the model fail: generator problem, do not judge
		part.Inconc(fmt.Sprintf("tree %d: fault %s not effective in the model", t.Index, t.Kind))
		return
	}
	part.Count("ok_trees", 1)

	// ---- (1) structural
	tr, chr, cerr := tableChild(worker, scratch, t, dir)
	part.Eval(t.Hash+"|table", len(t.Files) > 1)
	switch {
	case chr.Fired || chr.RuntimeDeadlock:
		hangVerdict(part, report, t, chr, "Executor.Setup (table worker)", "ok-tree")
		return
	case cerr != "":
		report(Finding{"C08 | setup.crash | ok-tree", fmt.Sprintf("the process that ran Executor.Setup died: %s", h.Truncate(cerr, 600))}, map[string]any{"expected": "loads", "stderr": h.Truncate(chr.Stderr, 3000)})
		return
	case tr.Panic != "":
		report(Finding{"C08 | setup.panic | ok-tree", fmt.Sprintf("Executor.Setup panicked: %s", tr.Panic)}, map[string]any{"expected": "loads", "stack": h.Truncate(tr.Stack, 3000)})
		return
	case tr.SetupErr != "":
		report(Finding{fmt.Sprintf("C08 | setup | unexpected-error | %s", tr.SetupErrType), fmt.Sprintf("the model expects the tree to load, Setup failed: %s", tr.SetupErr)}, map[string]any{"expected": "loads"})
		return
	}
	part.Count("table_fields_compared", tr.Compared)
	part.Count("table_tasks", int64(tr.Tasks))
	fieldMu.Lock()
	for k, v := range tr.FieldCmp {
		fieldCmp[k] += v
	}
	for k, v := range tr.FieldNonZero {
		fieldNonZero[k] += v
	}
	for _, k := range tr.Opaque {
		opaqueTypes[k] = true
	}
	fieldMu.Unlock()
	for _, f := range tr.Findings {
		report(f, map[string]any{"check": "table"})
	}

	// ---- (2a) listing
	r := h.CLI{Bin: bin, Dir: dir, Args: []string{"--list-all", "--json", "--no-status"}}.Run()
	part.Eval(t.Hash+"|list", len(t.Files) > 1)
	if r.TimedOut {
		part.Inconc(fmt.Sprintf("tree %d: list watchdog", t.Index))
	} else {
		var lj struct {
			Tasks []struct {
				Name string `json:"name"`
			} `json:"tasks"`
		}
		if r.Exit != 0 || json.Unmarshal([]byte(r.Stdout), &lj) != nil {
			report(Finding{"C08 | list | failed", fmt.Sprintf("--list-all --json exited %d: %s", r.Exit, h.Truncate(r.Stderr, 400))}, map[string]any{"stdout": h.Truncate(r.Stdout, 1000)})
		} else {
			got := map[string]bool{}
			for _, x := range lj.Tasks {
				got[x.Name] = true
			}
			for _, in := range m.Insts {
				name := in.Name
				if in.T.Label != "" {
					name = in.T.Label
				}
				if in.Internal {
					if got[name] && in.T.Label == "" {
						report(Finding{"C08 | list | internal-listed", fmt.Sprintf("internal task %q is listed by --list-all", name)}, map[string]any{})
					}
					continue
				}
				if !got[name] {
					report(Finding{fmt.Sprintf("C08 | list | missing depth=%d", len(in.Chain)), fmt.Sprintf("task %q is not listed by --list-all --json", name)}, map[string]any{"listed": lj.Tasks})
				}
			}
			part.Count("listed_names", int64(len(lj.Tasks)))
		}
	}

	// ---- (2c) names removed by excludes must not be callable
	for i, ex := range m.Excl {
		if _, ok := m.ByName[ex.Name]; ok || i >= 6 {
			continue // the name denotes another task (that is what excludes is for), or enough
		}
		r := h.CLI{Bin: bin, Dir: dir, Args: []string{"--silent", ex.Name}}.Run()
		part.Eval(t.Hash+"|excluded|"+ex.Name, true)
		part.Count("excluded_names_run", 1)
		if r.TimedOut {
			part.Inconc(fmt.Sprintf("tree %d name %s: watchdog", t.Index, ex.Name))
			continue
		}
		if obs := parseLines(r.Stdout); r.Exit == 0 || len(obs) > 0 {
			report(Finding{fmt.Sprintf("C08 | run.excluded-callable | depth=%d", len(ex.Chain)), fmt.Sprintf("task %q is excluded by its include but `task %s` exited %d and printed %d probe lines", ex.Name, ex.Name, r.Exit, len(obs))},
				map[string]any{"call": ex.Name, "exit": r.Exit, "stdout": h.Truncate(r.Stdout, 800), "stderr": h.Truncate(r.Stderr, 800)})
		}
	}

	// ---- (2b) every callable name
	var names []string
	for n, in := range m.ByName {
		if in.T.Carrier || m.Ambig[n] {
			continue
		}
		names = append(names, n)
	}
	sort.Strings(names)
	if len(names) > maxNames {
		rr := h.Rng(8, 30, int64(t.Index))
		rr.Shuffle(len(names), func(i, j int) { names[i], names[j] = names[j], names[i] })
		names = names[:maxNames]
		sort.Strings(names)
	}
	for _, name := range names {
		in := m.ByName[name]
		budget := 400
		exp, ok := m.Trace(in, "self", in, &budget)
		if !ok {
			part.Count("model_unresolved", 1)
			continue
		}
		isAlias := name != in.Name
		r := h.CLI{Bin: bin, Dir: dir, Args: []string{"--silent", name}}.Run()
		part.Eval(t.Hash+"|"+name, len(in.Chain) > 0)
		part.Count("names_run", 1)
		if isAlias {
			part.Count("alias_names_run", 1)
		}
		if r.TimedOut {
			part.Inconc(fmt.Sprintf("tree %d name %s: watchdog", t.Index, name))
			continue
		}
		obs := parseLines(r.Stdout)
		part.Count("probe_lines_observed", int64(len(obs)))
		part.Max("max_include_depth", int64(len(in.Chain)))
		for _, l := range exp {
			if l.Via != "self" {
				part.Count("refs_followed", 1)
				part.SetAdd("ref_kinds", fmt.Sprintf("%s@%d", l.Via, l.RefDepth))
			}
			if l.PWD != "*" {
				part.Count("pwd_judged", 1)
			} else {
				part.Count("pwd_unconstrained", 1)
			}
			if l.IV != "*" {
				part.Count("include_var_judged", 1)
			}
			if l.DV != "*" {
				part.Count("file_sh_var_judged", 1)
			}
			for _, v := range l.AV {
				if v != "*" {
					part.Count("outer_include_var_judged", 1)
				}
			}
		}
		var expS, obsS []string
		for _, l := range exp {
			expS = append(expS, l.String())
		}
		for _, o := range obs {
			obsS = append(obsS, o.raw)
		}
		extra := func() map[string]any {
			return map[string]any{"call": name, "denotes": fmt.Sprintf("%s#%s", t.Files[in.File].ID, in.T.Name), "expected_lines": expS, "observed_lines": obsS, "exit": r.Exit, "stderr": h.Truncate(r.Stderr, 1500)}
		}
		if len(part.Samples) < 4 && len(in.Chain) >= 2 && len(exp) >= 3 {
			var fl []string
			for _, f := range t.Files {
				fl = append(fl, "--- "+f.Path+"\n"+f.Text)
			}
			part.Sample(map[string]any{"tree": t.Index, "call": name, "expected_lines": expS, "observed_lines": obsS, "exit": r.Exit, "files": fl}, 4)
		}
		if r.Crashed() {
			report(Finding{"C08 | run.crash | -", fmt.Sprintf("`task %s` crashed", name)}, extra())
			continue
		}
		if in.Internal {
			part.Count("internal_names_run", 1)
			if r.Exit == 0 || len(obs) > 0 {
				report(Finding{fmt.Sprintf("C08 | run.internal-callable | depth=%d", len(in.Chain)), fmt.Sprintf("internal task %q was callable from the command line (exit %d, %d probe lines)", name, r.Exit, len(obs))}, extra())
			}
			continue
		}
		fs := match(exp, obs)
		if len(fs) == 0 && r.Exit != 0 {
			fs = append(fs, Finding{"C08 | run.exit | all-lines-matched", fmt.Sprintf("`task %s` printed the expected lines but exited %d", name, r.Exit)})
		}
		for i, f := range fs {
			if i < 1 { // the first missing line in execution order names the cause; later ones are consequences
				f.What = fmt.Sprintf("`task %s` (exit %d): %s", name, r.Exit, f.What)
				report(f, extra())
			}
		}
	}
}
