// Package hang runs a child process (the task CLI or an in-process worker that
// links the code under test) under a generous watchdog. Wall-clock time never
// decides anything: when the watchdog fires the child gets SIGQUIT, the Go
// runtime prints every goroutine, and the dump is judged:
//
//   - no goroutine (other than the runtime's and the harness' own) is running,
//     runnable, in a syscall, in an IO wait or asleep, and goroutines of the code
//     under test sit in sync.Mutex.Lock / semacquire (WaitGroup, errgroup) and
//     none of them waits in a select or on a channel (which a timer could still
//     wake): a deadlock, a verdict;
//   - anything else: still running or undecidable, inconclusive.
package hang

import (
	"bytes"
	"os/exec"
	"regexp"
	"strings"
	"syscall"
	"time"
)

// Result is the observation of one child.
type Result struct {
	Exit   int
	Stdout string
	Stderr string
	Fired  bool // the watchdog fired and SIGQUIT was sent
	// RuntimeDeadlock: the child died with the Go runtime's own
	// "all goroutines are asleep - deadlock!" (no watchdog involved)
	RuntimeDeadlock bool
	Deadlock        bool   // the dump shows a deadlock of the code under test
	Frame           string // innermost frame of the code under test of a goroutine blocked on a lock
	Why             string // how the dump was judged
	Dump            string
}

// Crashed reports a Go runtime crash that was not provoked by the watchdog.
func (r Result) Crashed() bool {
	return !r.Fired && !r.RuntimeDeadlock && (strings.Contains(r.Stderr, "panic:") || strings.Contains(r.Stderr, "fatal error:") || strings.Contains(r.Stderr, "goroutine 1 ["))
}

// Run runs cmd (Stdout/Stderr are captured) with the watchdog.
func Run(cmd *exec.Cmd, watchdog time.Duration) Result {
	var so, se bytes.Buffer
	cmd.Stdout, cmd.Stderr = &so, &se
	cmd.Env = append(cmd.Env, "GOTRACEBACK=all")
	cmd.SysProcAttr = &syscall.SysProcAttr{Setpgid: true}
	var r Result
	if err := cmd.Start(); err != nil {
		r.Exit = -2
		r.Stderr = err.Error()
		return r
	}
	done := make(chan error, 1)
	go func() { done <- cmd.Wait() }()
	select {
	case <-done:
	case <-time.After(watchdog):
		r.Fired = true
		cmd.Process.Signal(syscall.SIGQUIT)
		select {
		case <-done:
		case <-time.After(20 * time.Second):
			syscall.Kill(-cmd.Process.Pid, syscall.SIGKILL)
			<-done
		}
		syscall.Kill(-cmd.Process.Pid, syscall.SIGKILL) // children of the child, if any
	}
	r.Stdout, r.Stderr = so.String(), se.String()
	if cmd.ProcessState != nil {
		r.Exit = cmd.ProcessState.ExitCode()
	}
	if i := strings.Index(r.Stderr, "fatal error: all goroutines are asleep - deadlock!"); !r.Fired && i >= 0 {
		// the Go runtime itself found every goroutine blocked for ever and printed them
		r.RuntimeDeadlock = true
		r.Dump = r.Stderr[i:]
		r.Deadlock, r.Frame, r.Why = Judge(r.Dump)
		if !r.Deadlock {
			r.Deadlock, r.Why = true, "the Go runtime reported: all goroutines are asleep - deadlock ("+r.Why+")"
			if r.Frame == "" {
				r.Frame = "unknown"
			}
		} else {
			r.Why = "the Go runtime reported: all goroutines are asleep - deadlock"
		}
	}
	if r.Fired {
		if i := strings.Index(r.Stderr, "SIGQUIT: quit"); i >= 0 {
			r.Dump = r.Stderr[i:]
		} else {
			r.Dump = r.Stderr
		}
		r.Deadlock, r.Frame, r.Why = Judge(r.Dump)
	}
	return r
}

// Goroutine is one goroutine of a dump.
type Goroutine struct {
	ID     string
	State  string
	Frames []string // function names, innermost first
}

var headRe = regexp.MustCompile(`^goroutine (\d+)(?: gp=\S+ m=\S+(?: mp=\S+)?)? \[([^\]]*)\]:`)

// Parse splits a goroutine dump.
func Parse(dump string) []Goroutine {
	var out []Goroutine
	var cur *Goroutine
	for _, l := range strings.Split(dump, "\n") {
		if m := headRe.FindStringSubmatch(l); m != nil {
			st := m[2]
			if i := strings.Index(st, ","); i >= 0 {
				st = st[:i] // drop ", 2 minutes", ", locked to thread"
			}
			out = append(out, Goroutine{ID: m[1], State: strings.TrimSpace(st)})
			cur = &out[len(out)-1]
			continue
		}
		if cur == nil || l == "" {
			if l == "" {
				cur = nil
			}
			continue
		}
		if strings.HasPrefix(l, "\t") || strings.HasPrefix(l, " ") {
			continue // file:line
		}
		fn := l
		if strings.HasPrefix(fn, "created by ") {
			continue
		}
		if i := strings.LastIndex(fn, "("); i > 0 {
			fn = fn[:i]
		}
		cur.Frames = append(cur.Frames, fn)
	}
	return out
}

const (
	sutPrefix     = "github.com/go-task/task/v3/"
	harnessPrefix = "github.com/go-task/task/v3/verifh/"
)

func sutFrame(g Goroutine) string {
	for _, f := range g.Frames {
		if strings.HasPrefix(f, sutPrefix) && !strings.HasPrefix(f, harnessPrefix) {
			return strings.TrimPrefix(f, sutPrefix)
		}
	}
	return ""
}

func exempt(g Goroutine) bool {
	// the runtime's own and the harness' own goroutines
	for _, f := range g.Frames {
		if strings.HasPrefix(f, "os/signal.") || strings.HasPrefix(f, "runtime.sigNoteSleep") || strings.HasPrefix(f, "runtime.gcBgMarkWorker") ||
			strings.HasPrefix(f, "runtime.bgsweep") || strings.HasPrefix(f, "runtime.bgscavenge") || strings.HasPrefix(f, "runtime.runfinq") ||
			strings.HasPrefix(f, "runtime.forcegchelper") || strings.HasPrefix(f, "runtime.sighandler") || strings.HasPrefix(f, "runtime.sigtrampgo") {
			return true
		}
	}
	if strings.Contains(sutFrame(g), "InterceptInterruptSignals") {
		return true // woken by signals only
	}
	if sutFrame(g) == "" {
		for _, f := range g.Frames {
			if strings.HasPrefix(f, harnessPrefix) {
				return true // a harness goroutine that waits for the code under test
			}
		}
	}
	return false
}

// Judge decides whether a dump shows a deadlock of the code under test.
func Judge(dump string) (deadlock bool, frame, why string) {
	gs := Parse(dump)
	if len(gs) == 0 {
		return false, "", "no goroutine dump captured"
	}
	var lockFrame, semFrame string
	for _, g := range gs {
		sf := sutFrame(g)
		if exempt(g) {
			continue
		}
		switch g.State {
		case "running", "runnable", "syscall", "IO wait", "sleep":
			return false, "", "goroutine " + g.ID + " is " + g.State + " (" + strings.Join(first(g.Frames, 2), " < ") + ")"
		case "sync.Mutex.Lock", "sync.RWMutex.Lock", "sync.RWMutex.RLock", "semacquire", "sync.WaitGroup.Wait", "sync.Cond.Wait":
			if sf != "" {
				if (g.State == "sync.Mutex.Lock" || g.State == "sync.RWMutex.Lock" || g.State == "sync.RWMutex.RLock") && lockFrame == "" {
					lockFrame = sf
				} else if semFrame == "" {
					semFrame = sf
				}
			}
		default:
			// select, chan receive, chan send, ...: a timer may still wake it
			if sf != "" {
				return false, "", "goroutine " + g.ID + " of the code under test waits in [" + g.State + "] at " + sf + ": a timer or channel may still wake it"
			}
		}
	}
	switch {
	case lockFrame != "":
		return true, lockFrame, "nothing can run; goroutines of the code under test are blocked on a mutex"
	case semFrame != "":
		return true, semFrame, "nothing can run; goroutines of the code under test wait on a semaphore (WaitGroup/errgroup)"
	}
	return false, "", "no goroutine of the code under test is blocked on a lock"
}

func first(l []string, n int) []string {
	if len(l) > n {
		return l[:n]
	}
	return l
}
