// Package p08 is the check of property C08 "Included tasks behave as
// namespaced copies of their definitions".
//
// gen.go generates include trees (profile incl), model.go is the include model
// of DESIGN Appendix C written from the documentation, table.go compares the
// merged task table of the real Executor with the definitions field by field
// (by reflection), run.go drives the CLI and judges the probe output.
package p08

import (
	"fmt"
	"math/rand"
	"path/filepath"
	"sort"
	"strings"
)

// Task is one task definition of a generated file.
type Task struct {
	Name     string   `json:"name"`
	Aliases  []string `json:"aliases,omitempty"`
	Internal bool     `json:"internal,omitempty"`
	Dir      string   `json:"dir,omitempty"`
	Deps     []string `json:"deps,omitempty"`  // references, as written
	Calls    []string `json:"calls,omitempty"` // task: references after the probe, as written
	Carrier  bool     `json:"carrier,omitempty"`
	Label    string   `json:"label,omitempty"`
	Attrs    []string `json:"attrs,omitempty"` // extra YAML lines (attribute carriers)
}

// Inc is one include entry.
type Inc struct {
	NS       string      `json:"ns"`
	Target   int         `json:"target"` // -1: the file does not exist
	Path     string      `json:"path"`   // as written, relative to the including Taskfile's directory
	Mapping  bool        `json:"mapping"`
	Dir      string      `json:"dir,omitempty"`
	Optional bool        `json:"optional,omitempty"`
	Internal bool        `json:"internal,omitempty"`
	Flatten  bool        `json:"flatten,omitempty"`
	Aliases  []string    `json:"aliases,omitempty"`
	Excludes []string    `json:"excludes,omitempty"`
	Vars     [][2]string `json:"vars,omitempty"`
	Opts     []string    `json:"opts,omitempty"`
}

// File is one Taskfile.
type File struct {
	ID       string  `json:"id"`
	Path     string  `json:"path"` // relative to the project root
	InRoot   bool    `json:"in_root"`
	Version  string  `json:"version"`
	FlatSafe bool    `json:"flat_safe"` // task names carry the file id, so the file can be flattened
	Tasks    []*Task `json:"tasks"`
	Incs     []*Inc  `json:"includes"`
	Text     string  `json:"text"`
}

// Tree is one generated project.
type Tree struct {
	Index int     `json:"index"`
	Kind  string  `json:"kind"` // ok | cycle-self | cycle-2 | cycle-3 | missing | version | flatten-conflict | prefixed-collision
	Files []*File `json:"files"`
	Fault string  `json:"fault,omitempty"`
	// BelowOpt > 0: the fault sits that many include levels below an include
	// marked optional whose file exists (it must still be reported)
	BelowOpt int    `json:"below_optional,omitempty"`
	Hash     string `json:"hash"`
	OptSet   []string
}

// Options of an include entry (the factors of the pairwise array).
var Options = []string{"dir", "optional", "internal", "flatten", "aliases", "excludes", "vars"}

// OptionSets returns the queue of option sets used for include entries: the
// empty set, every single option, every pair, then nTriples random triples.
func OptionSets(r *rand.Rand, nTriples int) [][]string {
	var out [][]string
	out = append(out, nil)
	for _, o := range Options {
		out = append(out, []string{o})
	}
	for i := 0; i < len(Options); i++ {
		for j := i + 1; j < len(Options); j++ {
			out = append(out, []string{Options[i], Options[j]})
		}
	}
	for k := 0; k < nTriples; k++ {
		p := r.Perm(len(Options))[:3]
		sort.Ints(p)
		out = append(out, []string{Options[p[0]], Options[p[1]], Options[p[2]]})
	}
	return out
}

type gen struct {
	r     *rand.Rand
	t     *Tree
	nsN   int
	next  func() []string // next option set
	flats map[int]bool    // FlatSafe files already used as a flatten target
}

func has(l []string, s string) bool {
	for _, x := range l {
		if x == s {
			return true
		}
	}
	return false
}

func (g *gen) newFile(flatSafe bool) int {
	i := len(g.t.Files)
	f := &File{ID: fmt.Sprintf("f%d", i), Version: "3", FlatSafe: flatSafe}
	switch {
	case i == 0:
		f.Path, f.InRoot = "Taskfile.yml", true
	case g.r.Intn(10) < 6:
		f.Path, f.InRoot = fmt.Sprintf("Taskfile.%s.yml", f.ID), true
	case g.r.Intn(2) == 0:
		f.Path = fmt.Sprintf("sub_%s/Taskfile.yml", f.ID)
	default:
		f.Path = fmt.Sprintf("deep/x_%s/tasks.yml", f.ID)
	}
	g.t.Files = append(g.t.Files, f)
	return i
}

// Ancestors lists the files (other than the root and the file itself) from which file can be reached
// through include entries, in index order.
func (t *Tree) Ancestors(file int) []int {
	var reach func(from, to int, depth int) bool
	reach = func(from, to int, depth int) bool {
		if from == to {
			return true
		}
		if depth > 12 {
			return false
		}
		for _, inc := range t.Files[from].Incs {
			if inc.Target >= 0 && reach(inc.Target, to, depth+1) {
				return true
			}
		}
		return false
	}
	var out []int
	for a := 1; a < len(t.Files); a++ {
		if a != file && reach(a, file, 0) {
			out = append(out, a)
		}
	}
	return out
}

func (g *gen) reaches(from, to int) bool {
	if from == to {
		return true
	}
	for _, inc := range g.t.Files[from].Incs {
		if inc.Target >= 0 && g.reaches(inc.Target, to) {
			return true
		}
	}
	return false
}

func relTo(fromFile, toFile string, asDir bool) string {
	fd := filepath.Dir(fromFile)
	to := toFile
	if asDir {
		to = filepath.Dir(toFile)
	}
	rel, err := filepath.Rel(fd, to)
	if err != nil {
		rel = to
	}
	return "./" + filepath.ToSlash(rel)
}

// addInc adds an include entry parent -> target (target -1 = missing file).
func (g *gen) addInc(parent, target int, opts []string) *Inc {
	g.nsN++
	inc := &Inc{NS: fmt.Sprintf("n%d", g.nsN), Target: target, Opts: opts}
	pf := g.t.Files[parent]
	if target >= 0 {
		tf := g.t.Files[target]
		asDir := filepath.Base(tf.Path) == "Taskfile.yml" && !tf.InRoot && g.r.Intn(2) == 0
		inc.Path = relTo(pf.Path, tf.Path, asDir)
	} else {
		inc.Path = relTo(pf.Path, fmt.Sprintf("missing_%s.yml", inc.NS), false)
	}
	inc.Mapping = len(opts) > 0 || g.r.Intn(10) < 3
	for _, o := range opts {
		switch o {
		case "dir":
			inc.Dir = "./d_" + inc.NS
		case "optional":
			inc.Optional = true
		case "internal":
			inc.Internal = true
		case "flatten":
			inc.Flatten = true
		case "aliases":
			inc.Aliases = []string{"al" + inc.NS}
			if g.r.Intn(3) == 0 {
				inc.Aliases = append(inc.Aliases, "am"+inc.NS)
			}
		case "excludes":
			if target >= 0 {
				sfx := g.sfx(target)
				inc.Excludes = []string{"excl" + sfx}
				if g.r.Intn(3) == 0 {
					inc.Excludes = append(inc.Excludes, "attrs"+sfx)
				}
				if g.r.Intn(4) == 0 {
					inc.Excludes = append(inc.Excludes, "default"+sfx)
				}
			} else {
				inc.Excludes = []string{"excl"}
			}
		case "vars":
			id := "none"
			if target >= 0 {
				id = g.t.Files[target].ID
			}
			inc.Vars = [][2]string{{"IV_" + id, "iv-" + inc.NS}}
		}
	}
	pf.Incs = append(pf.Incs, inc)
	return inc
}

func (g *gen) sfx(file int) string {
	if g.t.Files[file].FlatSafe {
		return "_" + g.t.Files[file].ID
	}
	return ""
}

// grow adds includes below parent.
func (g *gen) grow(parent, depth int, pool *[]int) {
	k := 1 + g.r.Intn(3)
	if depth == 2 {
		k = g.r.Intn(3)
	}
	if depth >= 3 {
		k = g.r.Intn(2)
	}
	for j := 0; j < k; j++ {
		opts := g.next()
		flatten := has(opts, "flatten")
		if has(opts, "optional") && g.r.Intn(2) == 0 {
			g.addInc(parent, -1, opts)
			continue
		}
		target := -1
		if !flatten && len(*pool) > 0 && g.r.Intn(4) == 0 {
			// reuse a file: diamonds and the same file under two namespaces
			c := (*pool)[g.r.Intn(len(*pool))]
			if c != parent && !g.reaches(c, parent) && depth+g.height(c) <= 3 {
				target = c
			}
		}
		fresh := false
		if target < 0 {
			if len(g.t.Files) >= 8 {
				continue
			}
			target = g.newFile(flatten)
			*pool = append(*pool, target)
			fresh = true
		}
		g.addInc(parent, target, opts)
		if !flatten && g.r.Intn(5) == 0 {
			// the same file a second time at this level under another namespace
			o2 := g.next()
			if !has(o2, "flatten") {
				if has(o2, "optional") && g.r.Intn(2) == 0 {
					g.addInc(parent, -1, o2)
				} else {
					g.addInc(parent, target, o2)
				}
			}
		}
		if fresh && depth < 3 {
			g.grow(target, depth+1, pool)
		}
	}
}

// attribute carriers: every YAML key of a task, with values that make every
// field of ast.Task non-zero. They are never run.
var carrierAttrs = []string{
	"label: \"L-@ID@\"",
	"desc: \"desc of @ID@\"",
	"summary: \"summary of @ID@\\nsecond line\"",
	"prompt: [\"sure @ID@?\", \"really?\"]",
	"requires:\n      vars: [RQ_@ID@, {name: RQE_@ID@, enum: [a, b]}]",
	"sources: [\"src/**/*.@ID@\", {exclude: \"src/gen.@ID@\"}]",
	"generates: [\"out/@ID@.bin\"]",
	"status: [\"test -f out/@ID@.bin\"]",
	"preconditions: [{sh: \"test -d .\", msg: \"no dir @ID@\"}, \"true\"]",
	"dir: \"cd_@ID@\"",
	"set: [errexit, nounset]",
	"shopt: [globstar]",
	"vars:\n      TV_@ID@: tv\n      TD_@ID@: {sh: \"echo dyn\"}\n      TM_@ID@: {map: {b: 1, a: [x, y]}}\n      TR_@ID@: {ref: .TV_@ID@}",
	"env: {TE_@ID@: te, TF_@ID@: {sh: \"echo e\"}}",
	"dotenv: [\".env.@ID@\"]",
	"silent: true",
	"interactive: true",
	"internal: true",
	"method: timestamp",
	"prefix: \"pfx-@ID@\"",
	"ignore_error: true",
	"run: once",
	"platforms: [linux, darwin/arm64, amd64]",
	"watch: true",
	"aliases: [\"ca_@ID@\"]",
}

func (g *gen) carrier(f *File, all bool) *Task {
	sfx := ""
	if f.FlatSafe {
		sfx = "_" + f.ID
	}
	helper := "helper" + sfx
	t := &Task{Name: "attrs" + sfx, Carrier: true}
	for _, a := range carrierAttrs {
		if all || g.r.Intn(2) == 0 {
			t.Attrs = append(t.Attrs, strings.ReplaceAll(a, "@ID@", f.ID))
			switch {
			case strings.HasPrefix(a, "label:"):
				t.Label = "L-" + f.ID
			case strings.HasPrefix(a, "internal:"):
				t.Internal = true
			case strings.HasPrefix(a, "dir:"):
				t.Dir = "cd_" + f.ID
			case strings.HasPrefix(a, "aliases:"):
				t.Aliases = []string{"ca_" + f.ID}
			}
		}
	}
	// deps and cmds in every syntactic form; references are rewritten by the merge
	t.Attrs = append(t.Attrs, fmt.Sprintf("deps:\n      - %[2]s\n      - {task: %[2]s, vars: {X: \"1\"}, silent: true}\n      - {for: [p, q], task: %[2]s, vars: {I: \"{{.ITEM}}\"}}", f.ID, helper))
	cmds := []string{
		fmt.Sprintf("echo plain %s", f.ID),
		fmt.Sprintf("{cmd: \"echo opts %s\", silent: true, ignore_error: true, platforms: [linux], set: [xtrace], shopt: [nullglob]}", f.ID),
		fmt.Sprintf("{task: %s, vars: {A: b, C: {sh: \"echo c\"}}, silent: true}", helper),
		fmt.Sprintf("{defer: \"echo bye %s\"}", f.ID),
		fmt.Sprintf("{defer: {task: %s, vars: {D: e}}}", helper),
		fmt.Sprintf("{for: [a, b], cmd: \"echo {{.ITEM}} %s\"}", f.ID),
		fmt.Sprintf("{for: {matrix: {OS: [x, y], ARCH: [z]}}, cmd: \"echo {{.ITEM.OS}} %s\"}", f.ID),
		fmt.Sprintf("{for: {var: TV_%s, split: \",\", as: W}, task: %s, vars: {V: \"{{.W}}\"}}", f.ID, helper),
		fmt.Sprintf("{for: sources, cmd: \"echo {{.ITEM}}\"}"),
	}
	if !f.isRoot() {
		cmds = append(cmds, "{task: \":rootonly\"}")
	}
	t.Attrs = append(t.Attrs, "cmds:\n      - "+strings.Join(cmds, "\n      - "))
	return t
}

func (f *File) isRoot() bool { return f.ID == "f0" }

// fill creates the tasks of every file (after the include structure exists).
func (g *gen) fill(allAttrs bool) {
	for fi, f := range g.t.Files {
		sfx := g.sfx(fi)
		add := func(t *Task) *Task { f.Tasks = append(f.Tasks, t); return t }
		if fi == 0 || g.r.Intn(10) < 7 {
			add(&Task{Name: "default" + sfx})
		}
		b := add(&Task{Name: "build" + sfx, Deps: []string{"helper" + sfx}, Calls: []string{"test" + sfx}})
		if g.r.Intn(2) == 0 {
			b.Aliases = []string{"b_" + f.ID}
		}
		t := add(&Task{Name: "test" + sfx})
		if fi != 0 {
			switch g.r.Intn(3) {
			case 0:
				t.Calls = []string{":helper"}
			case 1:
				t.Calls = []string{":rootonly"}
			}
			if g.r.Intn(4) == 0 {
				t.Deps = []string{":rootonly"}
			}
		}
		if g.r.Intn(10) < 3 {
			t.Dir = "td_" + f.ID
		}
		add(&Task{Name: "helper" + sfx, Internal: fi != 0 && g.r.Intn(10) < 3})
		if fi == 0 {
			add(&Task{Name: "rootonly"})
		}
		add(&Task{Name: "excl" + sfx})
		up := &Task{Name: "up" + sfx}
		for _, inc := range f.Incs {
			if inc.Target < 0 {
				continue
			}
			cs := g.sfx(inc.Target)
			if inc.Flatten {
				up.Calls = append(up.Calls, "build"+cs)
			} else {
				ns := inc.NS
				if len(inc.Aliases) > 0 && g.r.Intn(2) == 0 {
					ns = inc.Aliases[0]
				}
				up.Calls = append(up.Calls, ns+":build"+cs)
			}
		}
		add(up)
		add(g.carrier(f, allAttrs && fi <= 1))
	}
}

// Render produces the YAML text of every file.
func (t *Tree) Render() {
	for fi, f := range t.Files {
		var b strings.Builder
		if f.Version != "" {
			fmt.Fprintf(&b, "version: '%s'\n", f.Version)
		}
		if len(f.Incs) > 0 {
			b.WriteString("includes:\n")
			for _, inc := range f.Incs {
				if !inc.Mapping {
					fmt.Fprintf(&b, "  %s: %s\n", inc.NS, inc.Path)
					continue
				}
				fmt.Fprintf(&b, "  %s:\n    taskfile: %s\n", inc.NS, inc.Path)
				if inc.Dir != "" {
					fmt.Fprintf(&b, "    dir: %s\n", inc.Dir)
				}
				if inc.Optional {
					b.WriteString("    optional: true\n")
				}
				if inc.Internal {
					b.WriteString("    internal: true\n")
				}
				if inc.Flatten {
					b.WriteString("    flatten: true\n")
				}
				if len(inc.Aliases) > 0 {
					fmt.Fprintf(&b, "    aliases: [%s]\n", strings.Join(inc.Aliases, ", "))
				}
				if len(inc.Excludes) > 0 {
					fmt.Fprintf(&b, "    excludes: [%s]\n", strings.Join(inc.Excludes, ", "))
				}
				if len(inc.Vars) > 0 {
					b.WriteString("    vars:\n")
					for _, kv := range inc.Vars {
						fmt.Fprintf(&b, "      %s: %q\n", kv[0], kv[1])
					}
				}
			}
		}
		// variable names are unique per file (C09's merge-order question must not leak in here)
		fmt.Fprintf(&b, "vars:\n  FV_%s: fv-%s\n  DV_%s:\n    sh: \"pwd # %s\"\n", f.ID, f.ID, f.ID, f.ID)
		b.WriteString("tasks:\n")
		for _, tk := range f.Tasks {
			fmt.Fprintf(&b, "  %q:\n", tk.Name)
			if tk.Carrier {
				for _, a := range tk.Attrs {
					fmt.Fprintf(&b, "    %s\n", a)
				}
				continue
			}
			if len(tk.Aliases) > 0 {
				fmt.Fprintf(&b, "    aliases: [%s]\n", strings.Join(tk.Aliases, ", "))
			}
			if tk.Internal {
				b.WriteString("    internal: true\n")
			}
			if tk.Dir != "" {
				fmt.Fprintf(&b, "    dir: %s\n", tk.Dir)
			}
			if len(tk.Deps) > 0 {
				b.WriteString("    deps:\n")
				for _, d := range tk.Deps {
					fmt.Fprintf(&b, "      - %q\n", d)
				}
			}
			b.WriteString("    cmds:\n")
			// AV: the include variables of the include statements further out (one slot per file that can reach this one)
			var av []string
			for _, a := range t.Ancestors(fi) {
				av = append(av, "{{.IV_"+t.Files[a].ID+"}}")
			}
			fmt.Fprintf(&b, "      - printf '%%s\\n' \"ORIGIN=%s#%s TASK={{.TASK}} PWD=$(pwd) FV={{.FV_%s}} IV={{.IV_%s}} DV={{.DV_%s}} AV=[%s]\"\n", f.ID, tk.Name, f.ID, f.ID, f.ID, strings.Join(av, ","))
			for _, c := range tk.Calls {
				fmt.Fprintf(&b, "      - task: %q\n", c)
			}
		}
		f.Text = b.String()
	}
	var hs []string
	for _, f := range t.Files {
		hs = append(hs, f.Path, f.Text)
	}
	t.Hash = hashOf(hs...)
}

// GenOK generates a tree that is meant to load (the model has the last word).
func GenOK(r *rand.Rand, idx int, next func() []string) *Tree {
	t := &Tree{Index: idx, Kind: "ok"}
	g := &gen{r: r, t: t, next: next, flats: map[int]bool{}}
	root := g.newFile(false)
	var pool []int
	if idx%6 == 1 {
		// a diamond: two siblings included in the short form, each including the
		// same common file in the long form with its own dir and vars
		g.diamond(root, &pool)
	}
	if idx%6 == 2 {
		// one file included under many namespaces by the same parent: its include goroutines finish together and
		// every one of the namespaces must be there
		x := g.rootFile()
		n := 12 + g.r.Intn(9)
		for j := 0; j < n; j++ {
			g.addInc(root, x, nil).Mapping = g.r.Intn(3) == 0
		}
		pool = append(pool, x)
	}
	if idx%6 == 4 {
		// one file that has an include of its own, included twice in the long form with different vars
		g.twice(root, &pool)
	}
	g.grow(root, 1, &pool)
	g.fill(idx%5 == 0)
	t.Render()
	return t
}

func (g *gen) rootFile() int {
	i := len(g.t.Files)
	f := &File{ID: fmt.Sprintf("f%d", i), Version: "3", InRoot: true}
	f.Path = fmt.Sprintf("Taskfile.%s.yml", f.ID)
	g.t.Files = append(g.t.Files, f)
	return i
}

func (g *gen) diamond(root int, pool *[]int) {
	a, b, c := g.rootFile(), g.rootFile(), g.rootFile()
	for _, s := range []int{a, b} {
		inc := g.addInc(root, s, nil)
		inc.Mapping = false
		ci := g.addInc(s, c, []string{"dir", "vars"})
		if g.r.Intn(2) == 0 {
			ci.Aliases = []string{"al" + ci.NS}
		}
	}
	*pool = append(*pool, a, b, c)
}

func (g *gen) twice(root int, pool *[]int) {
	mid, leaf := g.rootFile(), g.rootFile()
	g.addInc(root, mid, []string{"vars"})
	g.addInc(root, mid, []string{"vars"})
	g.addInc(mid, leaf, [][]string{{"vars"}, {"dir", "vars"}, {"aliases"}}[g.r.Intn(3)])
	if g.r.Intn(2) == 0 {
		// and the same through a diamond: a sibling that includes mid with vars of its own
		s := g.rootFile()
		g.addInc(root, s, nil).Mapping = false
		g.addInc(s, mid, []string{"vars"})
		*pool = append(*pool, s)
	}
	*pool = append(*pool, mid, leaf)
}

// Faults injected into an ok tree.
var Faults = []string{"cycle-self", "cycle-2", "cycle-3", "missing", "missing-deep", "version", "no-version", "flatten-conflict", "flatten-conflict-siblings", "prefixed-collision", "cycle-deep-sibling"}

// GenFault generates a tree with one fault that must be reported as an error.
func GenFault(r *rand.Rand, idx int, fault string, next func() []string) *Tree {
	t := &Tree{Index: idx, Kind: "ok"}
	g := &gen{r: r, t: t, next: func() []string {
		// faults are injected into trees without flatten/optional so that the fault is the only one
		for {
			o := next()
			if !has(o, "flatten") && !has(o, "optional") {
				return o
			}
		}
	}, flats: map[int]bool{}}
	root := g.newFile(false)
	var pool []int
	g.grow(root, 1, &pool)
	for len(t.Files) < 3 {
		c := g.newFile(false)
		g.addInc(len(t.Files)-2, c, nil)
	}
	// a non-root file and a chain root -> a -> b
	a := t.Files[0].Incs[0].Target
	pick := 1 + r.Intn(len(t.Files)-1)
	switch fault {
	case "cycle-self":
		g.addInc(pick, pick, nil)
	case "cycle-2":
		// pick includes one of its includers
		par := g.parentOf(pick)
		g.addInc(pick, par, nil)
	case "cycle-3":
		b := g.newFile(false)
		c := g.newFile(false)
		g.addInc(a, b, nil)
		g.addInc(b, c, nil)
		g.addInc(c, a, nil)
	case "missing":
		g.addInc(0, -1, nil)
	case "missing-deep":
		g.addInc(pick, -1, []string{"vars"})
	case "version":
		t.Files[pick].Version = []string{"3.5.0", "3.17", "2"}[r.Intn(3)]
	case "no-version":
		t.Files[pick].Version = ""
	case "flatten-conflict":
		// flatten a file whose task names equal the parent's
		c := g.newFile(false)
		g.addInc(g.parentOf(pick), c, []string{"flatten"})
	case "flatten-conflict-siblings":
		c := g.newFile(true)
		par := g.parentOf(pick)
		g.addInc(par, c, []string{"flatten"})
		g.addInc(par, c, []string{"flatten", "vars"})
	case "prefixed-collision":
		// the parent itself defines "<ns>:build"
	case "cycle-deep-sibling":
		g.cycleNextToChain(pick)
	}
	g.fill(false)
	if fault == "prefixed-collision" {
		inc := t.Files[0].Incs[0]
		t.Files[0].Tasks = append(t.Files[0].Tasks, &Task{Name: inc.NS + ":build"})
	}
	t.Kind = fault
	t.Fault = fault
	t.Render()
	return t
}

// height is the number of include levels below a file.
func (g *gen) height(file int) int {
	hmax := 0
	for _, inc := range g.t.Files[file].Incs {
		if inc.Target >= 0 {
			if x := 1 + g.height(inc.Target); x > hmax {
				hmax = x
			}
		}
	}
	return hmax
}

func (g *gen) parentOf(file int) int {
	for i, f := range g.t.Files {
		for _, inc := range f.Incs {
			if inc.Target == file {
				return i
			}
		}
	}
	return 0
}

// GenFaultBelowOptional generates a tree whose only fault sits depth (1 or 2)
// include levels below an include marked optional whose file EXISTS. optional
// only excuses a missing file; everything else must still be reported.
func GenFaultBelowOptional(r *rand.Rand, idx int, fault string, depth int, next func() []string) *Tree {
	t := &Tree{Index: idx, Kind: "ok"}
	g := &gen{r: r, t: t, next: func() []string {
		for {
			o := next()
			if !has(o, "flatten") && !has(o, "optional") {
				return o
			}
		}
	}, flats: map[int]bool{}}
	root := g.newFile(false)
	var pool []int
	g.grow(root, 1, &pool)
	// the optional include of an existing file, with one more option now and then
	opt := []string{"optional"}
	if x := []string{"", "dir", "vars", "aliases", "internal"}[r.Intn(5)]; x != "" {
		opt = append(opt, x)
	}
	o := g.newFile(false)
	g.addInc(root, o, opt)
	site := o // the file that carries the fault in its own includes
	if depth >= 2 {
		m := g.newFile(false)
		g.addInc(o, m, nil)
		site = m
	}
	var collide *Inc
	switch fault {
	case "cycle-self":
		g.addInc(site, site, nil)
	case "cycle-2":
		c := g.newFile(false)
		g.addInc(site, c, nil)
		g.addInc(c, site, nil)
	case "cycle-3":
		b, c := g.newFile(false), g.newFile(false)
		g.addInc(site, b, nil)
		g.addInc(b, c, nil)
		g.addInc(c, site, nil)
	case "missing":
		g.addInc(site, -1, nil)
	case "missing-deep":
		g.addInc(site, -1, []string{"vars"})
	case "version", "no-version":
		c := g.newFile(false)
		g.addInc(site, c, nil)
		if fault == "version" {
			t.Files[c].Version = []string{"3.5.0", "3.17", "2"}[r.Intn(3)]
		} else {
			t.Files[c].Version = ""
		}
	case "flatten-conflict":
		c := g.newFile(false)
		g.addInc(site, c, []string{"flatten"})
	case "flatten-conflict-siblings":
		c := g.newFile(true)
		g.addInc(site, c, []string{"flatten"})
		g.addInc(site, c, []string{"flatten", "vars"})
	case "prefixed-collision":
		c := g.newFile(false)
		collide = g.addInc(site, c, nil)
	case "cycle-deep-sibling":
		g.cycleNextToChain(site)
	}
	g.fill(false)
	if collide != nil {
		t.Files[site].Tasks = append(t.Files[site].Tasks, &Task{Name: collide.NS + ":build"})
	}
	t.Kind = fmt.Sprintf("%s@optional-%d", fault, depth)
	t.Fault = fault
	t.BelowOpt = depth
	t.Render()
	return t
}

// cycleNextToChain gives site an include cycle and, next to it, a sibling with
// a long chain of nested includes: the cycle is found while the readers of the
// chain still have to register their edges.
func (g *gen) cycleNextToChain(site int) {
	c := g.newFile(false)
	g.addInc(site, c, nil)
	if g.r.Intn(2) == 0 {
		g.addInc(c, c, nil)
	} else {
		c2 := g.newFile(false)
		g.addInc(c, c2, nil)
		g.addInc(c2, c, nil)
	}
	prev := site
	for n := 10 + g.r.Intn(31); n > 0; n-- {
		s := g.newFile(false)
		g.addInc(prev, s, nil)
		prev = s
	}
}
