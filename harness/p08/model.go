package p08

import (
	"crypto/sha256"
	"encoding/hex"
	"fmt"
	"path/filepath"
	"strings"
)

func hashOf(parts ...string) string {
	s := sha256.New()
	for _, p := range parts {
		s.Write([]byte(p))
		s.Write([]byte{0})
	}
	return hex.EncodeToString(s.Sum(nil))[:16]
}

// Inst is one task instance of the merged table predicted by the include model
// (DESIGN Appendix C, written from usage.mdx "Including other Taskfiles",
// "Calling another task", "Task directory", "Internal tasks" and the schema
// reference). Where the documentation is silent the model says "unconstrained"
// and the oracle does not judge.
type Inst struct {
	Name      string   // global name
	File      int      // defining file
	T         *Task    // definition
	Chain     []*Inc   // include entries from the root down to the defining file
	From      []int    // the including file of each chain entry
	Internal  bool     // d.internal or any include on the chain internal
	Aliases   []string // global alias names
	AliasFree bool     // flatten together with namespace aliases on the chain: alias set not documented
	Excluded  bool     // removed by an excludes list on the chain: the name must not exist
}

// Model is the export of the root Taskfile.
type Model struct {
	T      *Tree
	Root   string
	Insts  []*Inst
	Excl   []*Inst // names removed by excludes (must not be callable)
	ByName map[string]*Inst
	Ambig  map[string]bool
	Err    string // "" | cycle | missing | version | duplicate
}

func cp(l []string) []string { return append([]string(nil), l...) }

func (m *Model) export(f int, stack []int) ([]*Inst, string) {
	for _, s := range stack {
		if s == f {
			return nil, "cycle"
		}
	}
	file := m.T.Files[f]
	var out []*Inst
	names := map[string]bool{}
	for _, t := range file.Tasks {
		if names[t.Name] {
			return nil, "duplicate"
		}
		names[t.Name] = true
		out = append(out, &Inst{Name: t.Name, File: f, T: t, Internal: t.Internal, Aliases: cp(t.Aliases)})
	}
	for _, inc := range file.Incs {
		if inc.Target < 0 {
			if inc.Optional {
				continue // "will allow Task to continue execution as normal if the included file is missing"
			}
			return nil, "missing"
		}
		sub, err := m.export(inc.Target, append(append([]int(nil), stack...), f))
		if err != "" {
			return nil, err
		}
		if m.T.Files[inc.Target].Version != file.Version {
			return nil, "version" // "must be using the same schema version as the main Taskfile"
		}
		var def *Inst
		for _, d := range sub {
			n := &Inst{File: d.File, T: d.T, Internal: d.Internal || inc.Internal, AliasFree: d.AliasFree,
				Excluded: d.Excluded || has(inc.Excludes, d.Name),
				Chain:    append([]*Inc{inc}, d.Chain...), From: append([]int{f}, d.From...)}
			if inc.Flatten {
				n.Name = d.Name
				n.Aliases = cp(d.Aliases)
				if len(inc.Aliases) > 0 {
					n.AliasFree = true
				}
			} else {
				n.Name = inc.NS + ":" + d.Name
				for _, a := range d.Aliases {
					n.Aliases = append(n.Aliases, inc.NS+":"+a)
				}
				for _, na := range inc.Aliases {
					n.Aliases = append(n.Aliases, na+":"+d.Name)
					for _, a := range d.Aliases {
						n.Aliases = append(n.Aliases, na+":"+a)
					}
				}
				if d.Name == "default" {
					def = n
				}
			}
			if n.Excluded {
				if def == n {
					def = nil
				}
				out = append(out, n)
				continue
			}
			if names[n.Name] {
				return nil, "duplicate"
			}
			names[n.Name] = true
			out = append(out, n)
		}
		// "<namespace>" runs the included Taskfile's default task
		if def != nil && !names[inc.NS] {
			def.Aliases = append(def.Aliases, inc.NS)
			def.Aliases = append(def.Aliases, inc.Aliases...)
		}
	}
	return out, ""
}

// NewModel computes the model of a tree rooted at the absolute directory root.
func NewModel(t *Tree, root string) *Model {
	m := &Model{T: t, Root: root, ByName: map[string]*Inst{}, Ambig: map[string]bool{}}
	m.Insts, m.Err = m.export(0, nil)
	if m.Err != "" {
		m.Insts = nil
		return m
	}
	all := m.Insts
	m.Insts = nil
	for _, in := range all {
		if in.Excluded {
			m.Excl = append(m.Excl, in)
		} else {
			m.Insts = append(m.Insts, in)
		}
	}
	for _, in := range m.Insts {
		m.ByName[in.Name] = in
	}
	for _, in := range m.Insts {
		for _, a := range in.Aliases {
			if other, ok := m.ByName[a]; ok && other != in {
				m.Ambig[a] = true
				continue
			}
			m.ByName[a] = in
		}
	}
	return m
}

// Prefix is what the merge puts in front of a reference made by this instance.
func (in *Inst) Prefix() string {
	p := ""
	for _, e := range in.Chain {
		if !e.Flatten {
			p += e.NS + ":"
		}
	}
	return p
}

// ResolveName is the global name a reference written in in's file denotes: the
// file's own namespace, or the ROOT Taskfile for a leading ':'.
func (in *Inst) ResolveName(ref string) string {
	if strings.HasPrefix(ref, ":") {
		return strings.TrimPrefix(ref, ":")
	}
	return in.Prefix() + ref
}

// WorkDir is the directory the instance's commands must run in, or ok=false
// where the documentation does not pin it down.
func (m *Model) WorkDir(in *Inst) (string, bool) {
	td := in.T.Dir
	if len(in.Chain) == 0 {
		return filepath.Join(m.Root, td), true
	}
	// "current directory", "the parent Taskfile directory" and "the directory of
	// the including Taskfile" coincide only while every including file is in the root
	for _, f := range in.From {
		if !m.T.Files[f].InRoot {
			return "", false
		}
	}
	withDir := -1
	n := 0
	for i, e := range in.Chain {
		if e.Mapping && e.Dir != "" {
			withDir = i
			n++
		}
	}
	switch {
	case n == 0:
		if !m.T.Files[in.File].InRoot && td != "" {
			return "", false
		}
		return filepath.Join(m.Root, td), true
	case n == 1 && withDir == len(in.Chain)-1:
		return filepath.Join(m.Root, in.Chain[withDir].Dir, td), true
	}
	return "", false // dirs on several levels: how they combine is not documented
}

// IncludeVar is the value of the include variable IV_<file> the instance must see.
func (m *Model) IncludeVar(in *Inst) (string, bool) {
	if len(in.Chain) == 0 {
		return "", false
	}
	e := in.Chain[len(in.Chain)-1]
	for _, kv := range e.Vars {
		if kv[0] == "IV_"+m.T.Files[in.File].ID {
			return kv[1], true
		}
	}
	return "", false
}

// FileShVar is the value of DV_<file> (a global "sh: pwd" variable of the
// defining file) the instance must see: the directory given by ITS include.
// Judged only in the plainest situation: the include of the defining file is in
// the long form with dir, every outer include is in the short form and every
// including file is in the project root. (Two instances of one file under two
// includes with different dir are copies; neither may see the other's dir.)
func (m *Model) FileShVar(in *Inst) (string, bool) {
	n := len(in.Chain)
	if n == 0 {
		return "", false
	}
	for _, f := range in.From {
		if !m.T.Files[f].InRoot {
			return "", false
		}
	}
	for _, e := range in.Chain[:n-1] {
		if e.Mapping {
			return "", false
		}
	}
	e := in.Chain[n-1]
	if !e.Mapping || e.Dir == "" {
		return "", false
	}
	return filepath.Join(m.Root, e.Dir), true
}

// Line is one expected probe line.
type Line struct {
	Origin   string
	Task     string
	PWD      string // "*" = unconstrained
	FV       string
	IV       string // "*" = unconstrained
	DV       string // value of the file's own dynamic variable DV_<file> (sh: pwd); "*" = unconstrained
	AV       []string // per ancestor file (Tree.Ancestors order): the include variable of the include statement on this
	// instance's chain that targets the ancestor; "*" = unconstrained (no such statement on the chain, or it has no vars)
	Via      string // self | dep | call | dep:root | call:root | call:child
	RefDepth int    // include depth of the referring instance
	RefChain string // depth class and flatten pattern of the referring instance's include chain
	Depth    int
	Flat     bool
}

func (l Line) String() string {
	return fmt.Sprintf("ORIGIN=%s TASK=%s PWD=%s FV=%s IV=%s DV=%s AV=[%s]", l.Origin, l.Task, l.PWD, l.FV, l.IV, l.DV, strings.Join(l.AV, ","))
}

// ChainTag classifies an include chain: depth 0, 1 or 2+, and where flatten occurs
// (the innermost entry is the include of the defining file).
func (in *Inst) ChainTag() string {
	d := "0"
	switch {
	case len(in.Chain) == 1:
		d = "1"
	case len(in.Chain) >= 2:
		d = "2+"
	}
	fl := "none"
	for i, e := range in.Chain {
		if e.Flatten {
			if i == len(in.Chain)-1 {
				fl = "innermost"
				break
			}
			fl = "outer"
		}
	}
	return "depth=" + d + " flatten=" + fl
}

func (m *Model) line(in *Inst, via string, ref *Inst) Line {
	id := m.T.Files[in.File].ID
	l := Line{Origin: id + "#" + in.T.Name, Task: in.Name, PWD: "*", FV: "fv-" + id, IV: "*", DV: "*", Via: via, RefDepth: len(ref.Chain), RefChain: ref.ChainTag(), Depth: len(in.Chain)}
	if w, ok := m.WorkDir(in); ok {
		l.PWD = w
	}
	if v, ok := m.IncludeVar(in); ok {
		l.IV = v
	}
	if v, ok := m.FileShVar(in); ok {
		l.DV = v
	}
	for _, e := range in.Chain {
		if e.Flatten {
			l.Flat = true
		}
	}
	for _, a := range m.T.Ancestors(in.File) {
		v := "*"
		for _, e := range in.Chain {
			if e.Target != a {
				continue
			}
			for _, kv := range e.Vars {
				if kv[0] == "IV_"+m.T.Files[a].ID {
					v = kv[1]
				}
			}
		}
		l.AV = append(l.AV, v)
	}
	return l
}

func refKind(ref string) string {
	switch {
	case strings.HasPrefix(ref, ":"):
		return ":root"
	case strings.Contains(ref, ":"):
		return ":child"
	}
	return ""
}

// Trace is the multiset of probe lines a run of the instance must print. ok is
// false when a reference cannot be resolved in the model (not judged).
func (m *Model) Trace(in *Inst, via string, ref *Inst, budget *int) ([]Line, bool) {
	*budget--
	if *budget < 0 {
		return nil, false
	}
	var out []Line
	follow := func(kind, ref string) bool {
		name := in.ResolveName(ref)
		if m.Ambig[name] {
			return false
		}
		j, ok := m.ByName[name]
		if !ok {
			return false
		}
		ls, ok := m.Trace(j, kind+refKind(ref), in, budget)
		out = append(out, ls...)
		return ok
	}
	for _, d := range in.T.Deps {
		if !follow("dep", d) {
			return nil, false
		}
	}
	out = append(out, m.line(in, via, ref))
	for _, c := range in.T.Calls {
		if !follow("call", c) {
			return nil, false
		}
	}
	return out, true
}
