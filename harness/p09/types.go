package p09

import (
	"crypto/sha256"
	"encoding/hex"
)

func hashOf(parts ...string) string {
	s := sha256.New()
	for _, p := range parts {
		s.Write([]byte(p))
		s.Write([]byte{0})
	}
	return hex.EncodeToString(s.Sum(nil))[:16]
}

// HashOf is a short stable hash.
func HashOf(parts ...string) string { return hashOf(parts...) }

// Job is the input of one worker process.
type Job struct {
	Trees   []*Tree `json:"trees"`
	Loads   int     `json:"loads"`   // free-running repeated loads per tree
	Repeats int     `json:"repeats"` // repeated loads per enforced completion order
	GMP     int     `json:"gmp"`
	Hook    bool    `json:"hook"` // enumerate completion orders with the hooks
	// DryEvery n: the dry run (a consequence of the compiled tasks that every
	// load dumps anyway) is part of every n-th free-running load and of every
	// load under an enforced completion order
	DryEvery int `json:"dry_every"`
}

// Kinds of observable a dump is split into. Each is compared on its own, so a
// report says exactly what differed between two loads of one tree.
var Kinds = []string{
	"setup-error",        // Setup returned an error of another type (or none)
	"task-set",           // the set of task names
	"task-order",         // the order of e.Taskfile.Tasks
	"aliases",            // the alias sets of the tasks
	"alias-order",        // the order of a task's alias list
	"global-var-value",   // values of the merged global vars / env
	"global-var-order",   // order of the merged global vars / env
	"binding",            // which task a call resolves to (GetTask)
	"var-value",          // values of the variables / env of a compiled task (Fast and full)
	"compiled-var-order", // order of the non-special variables inside a compiled task's Vars
	"special-var-order",  // order of the special variables (TASK, ROOT_DIR, ...) inside a compiled task's Vars (observed, not judged)
	"cmd-line",           // command lines / call targets / deps / dir of a compiled task
	"compile-error",      // error text of FastCompiledTask / CompiledTask
	"dry-run",            // output and error of the dry run
	"run-output",         // output of really executed tasks whose commands only print their environment (dotenv shape)
	// the task listing (--list-all) per sorter, as text and as JSON (--json)
	"list-default-text", "list-default-json", "list-alphanumeric-text", "list-alphanumeric-json", "list-none-text", "list-none-json",
}

// Sorters are the task sorters of --sort.
var Sorters = []string{"default", "alphanumeric", "none"}

// Obs is the set of distinct values of one kind seen for one tree.
type Obs struct {
	Count map[string]int    `json:"count"` // value hash -> loads
	Text  map[string]string `json:"text"`  // value hash -> canonical text (first seen)
}

// PermRun is the result of the loads under one enforced completion order.
type PermRun struct {
	Parent  int                 `json:"parent"`
	Perm    []string            `json:"perm"`
	Linked  []string            `json:"linked"` // order of include.linked notifications observed
	Hashes  map[string][]string `json:"hashes"` // kind -> value hash per repeat
	Inconc  string              `json:"inconc,omitempty"`
	Parked  int                 `json:"parked"`
	Repeats int                 `json:"repeats"`
}

// TreeResult is what a worker reports for one tree.
type TreeResult struct {
	Tree   int             `json:"tree"`
	GMP    int             `json:"gmp"`
	Loads  int             `json:"loads"`
	Free   map[string]*Obs `json:"free"` // kind -> values over the free-running loads
	Hook   map[string]*Obs `json:"hook"` // kind -> values over the hook-controlled loads (texts for the hashes in Perms)
	Perms  []PermRun       `json:"perms"`
	Inconc []string        `json:"inconc"`
	Sample string          `json:"sample,omitempty"` // one full dump, for the evidence
	Done   int             `json:"done"`             // loads completed (also in the progress file)
}

// Out is the output of one worker process.
type Out struct {
	Results []*TreeResult `json:"results"`
	Events  int64         `json:"events"` // hook arrivals seen
}

// ObservedOnly lists the kinds that are recorded in the evidence but never
// turned into a violation, because the property statement does not cover them:
// it demands "the same set and order of tasks, the same aliases, and the same
// variable values and command lines for every task"; the position of TASK,
// ROOT_DIR, ... inside a compiled task's variable set is none of these and is
// not observable through any value, command line or output.
var ObservedOnly = map[string]bool{"special-var-order": true}
