// Package p09 is the check of property C09 "Loading a Taskfile tree is
// deterministic" (engine E5 detload).
//
// The driver (this package, no build tag) generates include trees with
// deliberate clashes, writes them to a scratch directory, builds the worker
// (./p09/worker, -tags verif, links /repo in-process) and runs it under
// GOMAXPROCS 1, 4 and 16. The worker loads every tree many times in one
// process and reduces each load to a canonical dump that is split into
// components (task order, aliases, variable values, command lines, ...). The
// driver then only asks: did one tree produce more than one value of a
// component? There is no model of which value is right.
package p09

import (
	"fmt"
	"math/rand"
	"sort"
	"strings"
)

// Inc is one include entry of a file.
type Inc struct {
	NS      string   `json:"ns"`
	Target  int      `json:"target"` // index into Tree.Files
	Mapping bool     `json:"mapping"`
	Dir     string   `json:"dir,omitempty"`
	Flatten bool     `json:"flatten,omitempty"`
	Aliases []string `json:"aliases,omitempty"`
	Vars    []string `json:"vars,omitempty"` // "K=V"
	// Optional marks the include optional; Target -1 is a file that does not exist
	Optional bool `json:"optional,omitempty"`
}

// File is one Taskfile of a tree.
type File struct {
	ID       string `json:"id"`   // short id used in probe texts (f0 = root)
	Path     string `json:"path"` // relative to the tree directory
	Includes []Inc  `json:"includes"`
	Flat     bool   `json:"flat"` // tasks carry the file id in their name (the file is meant to be flattened)
	RootV    bool   `json:"root_v"`
	Version  string `json:"version,omitempty"` // "" = '3', "none" = no version line
	Dotenv   bool   `json:"dotenv,omitempty"`  // root of the dotenv shape
	Text     string `json:"text"`
}

// Level is a set of sibling include entries (the includes of one file).
type Level struct {
	Parent int      `json:"parent"`
	NS     []string `json:"ns"`
}

// Tree is one generated project.
type Tree struct {
	Index  int               `json:"index"`
	Shape  string            `json:"shape"`
	Dir    string            `json:"dir"` // absolute, set by the driver
	Files  []File            `json:"files"`
	Calls  []string          `json:"calls"`           // names resolved and compiled in addition to the task table
	Dry    []string          `json:"dry"`             // calls of the dry run
	Exec   []string          `json:"exec"`            // calls that are really executed (their commands only print)
	Extra  map[string]string `json:"extra,omitempty"` // further files of the project (dotenv files)
	Fault  string            `json:"fault,omitempty"` // fault-bearing trees: the kind of fault in the common file
	Levels []Level           `json:"levels"`          // files with >= 2 include entries
	Clash  bool              `json:"clash"`           // >= 1 level with >= 2 includes
	Hash   string            `json:"hash"`
}

// Shapes in generation order; the first len(shapes) trees of a run are one of
// each, the rest are drawn at random.
var shapes = []string{"siblings", "same-file-twice", "diamond", "nested-siblings", "flatten-siblings", "chain", "mixed", "diamond-deep", "two-depths", "many-namespaces"}

type tgen struct {
	r    *rand.Rand
	t    *Tree
	nsN  int
	fwd  map[int][]string // file index -> callable local names (for calls)
	deep int
}

func (g *tgen) ns() string { g.nsN++; return fmt.Sprintf("n%d", g.nsN) }

func (g *tgen) addFile(flat bool) int {
	i := len(g.t.Files)
	id := fmt.Sprintf("f%d", i)
	p := "Taskfile.yml"
	if i > 0 {
		switch g.r.Intn(3) {
		case 0:
			p = fmt.Sprintf("inc/%s.yml", id)
		case 1:
			p = fmt.Sprintf("sub%d/Taskfile.yml", i)
		default:
			p = fmt.Sprintf("inc/%s/Taskfile.yml", id)
		}
	}
	g.t.Files = append(g.t.Files, File{ID: id, Path: p, Flat: flat})
	return i
}

// link adds an include entry parent -> target.
func (g *tgen) link(parent, target int, flatten bool) {
	inc := Inc{NS: g.ns(), Target: target, Flatten: flatten}
	if target < 0 {
		g.t.Files[parent].Includes = append(g.t.Files[parent].Includes, inc)
		return
	}
	if flatten || g.r.Intn(2) == 0 {
		inc.Mapping = true
		if g.r.Intn(2) == 0 {
			inc.Dir = fmt.Sprintf("./wd%d", g.r.Intn(3))
		}
		if g.r.Intn(2) == 0 {
			inc.Vars = []string{"IV=iv-" + inc.NS}
			if g.r.Intn(3) == 0 {
				inc.Vars = append(inc.Vars, "V=incl-"+inc.NS)
			}
		}
		if !flatten && g.r.Intn(3) == 0 {
			inc.Aliases = []string{"a" + inc.NS}
		}
	}
	g.t.Files[parent].Includes = append(g.t.Files[parent].Includes, inc)
}

func relPath(from, to string) string {
	// both relative to the tree directory; includes are resolved relative to
	// the including file's directory
	fd := strings.Split(from, "/")
	fd = fd[:len(fd)-1]
	up := strings.Repeat("../", len(fd))
	return "./" + up + to
}

// render produces the YAML of every file.
func (g *tgen) render() {
	t := g.t
	for i := range t.Files {
		f := &t.Files[i]
		var b strings.Builder
		switch f.Version {
		case "":
			b.WriteString("version: '3'\n")
		case "none":
		default:
			fmt.Fprintf(&b, "version: '%s'\n", f.Version)
		}
		if f.Dotenv {
			b.WriteString("dotenv: ['.env', 'second.env']\n")
		}
		if len(f.Includes) > 0 {
			b.WriteString("includes:\n")
			for _, inc := range f.Includes {
				tp := "./missing_" + inc.NS + ".yml"
				if inc.Target >= 0 {
					tp = relPath(f.Path, t.Files[inc.Target].Path)
				}
				if !inc.Mapping {
					fmt.Fprintf(&b, "  %s: %s\n", inc.NS, tp)
					continue
				}
				fmt.Fprintf(&b, "  %s:\n    taskfile: %s\n", inc.NS, tp)
				if inc.Dir != "" {
					fmt.Fprintf(&b, "    dir: %s\n", inc.Dir)
				}
				if inc.Flatten {
					b.WriteString("    flatten: true\n")
				}
				if inc.Optional {
					b.WriteString("    optional: true\n")
				}
				if len(inc.Aliases) > 0 {
					fmt.Fprintf(&b, "    aliases: [%s]\n", strings.Join(inc.Aliases, ", "))
				}
				if len(inc.Vars) > 0 {
					b.WriteString("    vars:\n")
					for _, kv := range inc.Vars {
						k, v, _ := strings.Cut(kv, "=")
						fmt.Fprintf(&b, "      %s: %q\n", k, v)
					}
				}
			}
		}
		id := f.ID
		sfx := ""
		if f.Flat {
			sfx = "-" + id
		}
		if i == 0 {
			b.WriteString("vars:\n  R: root\n")
			if f.Dotenv {
				b.WriteString("  G: \"g-{{.R}}\"\n")
			}
			if f.RootV {
				b.WriteString("  V: v-from-root\n")
			}
			if f.Dotenv {
				b.WriteString("env:\n  E0: \"e0-{{.G}}\"\n")
			}
			b.WriteString("tasks:\n")
			b.WriteString("  default:\n    vars: {L: \"{{.V}}-l\"}\n    cmds:\n      - echo f0 default V={{.V}} L={{.L}} P={{.P}} M={{.M}} E=$E\n")
			b.WriteString("  all:\n    cmds:\n")
			for _, c := range t.Calls {
				fmt.Fprintf(&b, "      - task: %q\n", c)
			}
			b.WriteString("  \"*:build-zz\":\n    cmds:\n      - echo f0 root-wildcard MATCH={{.MATCH}} V={{.V}}\n")
			if f.Dotenv {
				// values of the dotenv files refer to each other and to global vars; the commands only print
				b.WriteString("  envshow:\n    cmds:\n      - printf '%s\\n' \"A=$A B=$B C=$C D=$D K=$K G2=$G2 E0=$E0\"\n")
				b.WriteString("  envshow2:\n    dotenv: ['task.env']\n    env: {T: \"t-{{.A}}-{{.X}}\"}\n    cmds:\n      - printf '%s\\n' \"A=$A B=$B X=$X Y=$Y Z=$Z T=$T\"\n")
			}
		} else {
			fmt.Fprintf(&b, "vars:\n  V: v-from-%s\n", id)
			if i%2 == 1 {
				fmt.Fprintf(&b, "  P:\n    sh: \"pwd # %s\"\n", id)
			}
			if i == 1 {
				fmt.Fprintf(&b, "  M:\n    map: {k2: \"{{.V}}\", k1: 1, k3: [z, a]}\n")
			}
			fmt.Fprintf(&b, "env:\n  E: e-from-%s\n", id)
			b.WriteString("tasks:\n")
			fmt.Fprintf(&b, "  default%s:\n    cmds:\n      - echo %s default V={{.V}} P={{.P}} IV={{.IV}}\n", sfx, id)
			fmt.Fprintf(&b, "  show%s:\n    aliases: [s%s]\n    vars: {L: \"{{.V}}-l\"}\n    cmds:\n      - echo %s show V={{.V}} L={{.L}} E=$E\n      - task: default%s\n", sfx, sfx, id, sfx)
			if f.Flat {
				// overlapping wildcards across flattened siblings: distinct patterns that all match "lint-vet"
				pat := []string{"lint-v*", "lint-*", "*-vet", "l*-vet"}[i%4]
				fmt.Fprintf(&b, "  %q:\n    cmds:\n      - echo %s wild MATCH={{.MATCH}} V={{.V}}\n", pat, id)
			} else {
				fmt.Fprintf(&b, "  \"build-*\":\n    cmds:\n      - echo %s build MATCH={{.MATCH}} V={{.V}}\n", id)
			}
		}
		f.Text = b.String()
	}
}

// exported names of file i as seen from the root, following the docs: own
// tasks, then each include's tasks prefixed (or not, when flattened).
func (g *tgen) names(i int, depth int) []string {
	f := g.t.Files[i]
	var out []string
	if i != 0 {
		if f.Flat {
			out = append(out, "show-"+f.ID, "s-"+f.ID, "lint-vet")
		} else {
			out = append(out, "show", "s", "build-zz", "build-qq")
		}
	}
	if depth >= 4 {
		return out
	}
	for _, inc := range f.Includes {
		if inc.Target < 0 {
			continue
		}
		for _, n := range g.names(inc.Target, depth+1) {
			if inc.Flatten {
				out = append(out, n)
			} else {
				out = append(out, inc.NS+":"+n)
				for _, a := range inc.Aliases {
					out = append(out, a+":"+n)
				}
			}
		}
		if !inc.Flatten && !g.t.Files[inc.Target].Flat {
			out = append(out, inc.NS)
		}
	}
	return out
}

// GenTree builds tree number idx of the run.
// FaultKinds are the ways the common file of a fault diamond is broken.
var FaultKinds = []string{"missing", "version", "no-version", "cycle", "flatten-conflict"}

// plan is the sequence of shapes of a run: three rounds of the ten clash
// shapes, two dotenv trees, one fault diamond per fault kind and two more with
// a missing required include. Longer runs repeat it.
var plan = func() []string {
	var p []string
	for i := 0; i < 3; i++ {
		p = append(p, shapes...)
	}
	p = append(p, "dotenv", "dotenv")
	for _, k := range FaultKinds {
		p = append(p, "fault-diamond-"+k)
	}
	p = append(p, "fault-diamond-missing", "fault-diamond-missing")
	return p
}()

// PlanLen is the number of trees of one round of the plan.
func PlanLen() int { return len(plan) }

func GenTree(r *rand.Rand, idx int) *Tree {
	shape := plan[idx%len(plan)]
	t := &Tree{Index: idx, Shape: shape}
	if strings.HasPrefix(shape, "fault-diamond-") {
		t.Fault = strings.TrimPrefix(shape, "fault-diamond-")
		t.Shape = "fault-diamond"
	}
	g := &tgen{r: r, t: t}
	root := g.addFile(false)
	t.Files[root].RootV = r.Intn(3) == 0
	switch t.Shape {
	case "dotenv":
		t.Files[root].Dotenv = true
		g.link(root, g.addFile(false), false)
		t.Extra = map[string]string{
			".env":       "A=base\nB={{.A}}-b\nC={{.B}}-c\nG2={{.G}}-from-dotenv\n",
			"second.env": "A=second\nD={{.C}}-d\nK={{.D}}-k\n",
			"task.env":   "X=x\nY={{.X}}-y\nZ={{.Y}}-z-{{.R}}\nA=task-a\n",
		}
		t.Exec = []string{"envshow", "envshow2"}
	case "fault-diamond":
		// root -> b, c; b -> d optionally, c -> d normally; d is broken
		b, c, d := g.addFile(false), g.addFile(false), g.addFile(false)
		if r.Intn(2) == 0 {
			g.link(root, b, false)
			g.link(root, c, false)
		} else {
			g.link(root, c, false)
			g.link(root, b, false)
		}
		g.link(b, d, false)
		bi := &t.Files[b].Includes[len(t.Files[b].Includes)-1]
		bi.Mapping, bi.Optional = true, true
		g.link(c, d, false)
		switch t.Fault {
		case "missing":
			g.link(d, -1, false)
		case "version":
			e := g.addFile(false)
			t.Files[e].Version = []string{"3.5.0", "2"}[r.Intn(2)]
			g.link(d, e, false)
		case "no-version":
			e := g.addFile(false)
			t.Files[e].Version = "none"
			g.link(d, e, false)
		case "cycle":
			g.link(d, c, false)
		case "flatten-conflict":
			// a file with d's task names, flattened into d
			e := g.addFile(false)
			g.link(d, e, true)
		}
	case "siblings":
		k := 2 + r.Intn(3)
		for j := 0; j < k; j++ {
			g.link(root, g.addFile(false), false)
		}
	case "same-file-twice":
		x := g.addFile(false)
		g.link(root, x, false)
		g.link(root, x, false)
		// make the two entries differ in dir so that a dir-sensitive variable can tell them apart
		t.Files[root].Includes[0].Mapping, t.Files[root].Includes[0].Dir = true, "./wd0"
		t.Files[root].Includes[1].Mapping, t.Files[root].Includes[1].Dir = true, "./wd1"
	case "diamond":
		b, c, d := g.addFile(false), g.addFile(false), g.addFile(false)
		g.link(root, b, false)
		g.link(root, c, false)
		g.link(b, d, false)
		g.link(c, d, false)
	case "diamond-deep":
		// root -> b, c; both include d in the long form with DIFFERENT vars; d has a long-form include of its own:
		// the tasks of e exist once per path and each must keep the vars of its own path
		b, c, d, e := g.addFile(false), g.addFile(false), g.addFile(false), g.addFile(false)
		g.link(root, b, false)
		g.link(root, c, false)
		for _, s := range []int{b, c} {
			g.link(s, d, false)
			inc := &t.Files[s].Includes[len(t.Files[s].Includes)-1]
			inc.Mapping = true
			inc.Vars = []string{"IV=iv-" + inc.NS, "V=incl-" + inc.NS}
		}
		g.link(d, e, false)
		inc := &t.Files[d].Includes[len(t.Files[d].Includes)-1]
		inc.Mapping = true
		if inc.Dir == "" && len(inc.Vars) == 0 {
			inc.Dir = "./wd0"
		}
	case "two-depths":
		// one file reached at two depths (root -> common, root -> svc -> common) that has an include of its own
		// (common -> os): every merge order must deliver svc:common:os:*
		svc, common, osf := g.addFile(false), g.addFile(false), g.addFile(false)
		if r.Intn(2) == 0 {
			g.link(root, common, false)
			g.link(root, svc, false)
		} else {
			g.link(root, svc, false)
			g.link(root, common, false)
		}
		g.link(svc, common, false)
		g.link(common, osf, false)
		if r.Intn(2) == 0 {
			g.link(svc, g.addFile(false), false)
		}
	case "many-namespaces":
		// one file included under many namespaces by the same parent (its include goroutines finish together)
		x := g.addFile(false)
		n := 12 + r.Intn(13)
		for j := 0; j < n; j++ {
			g.link(root, x, false)
		}
	case "nested-siblings":
		a := g.addFile(false)
		g.link(root, a, false)
		k := 2 + r.Intn(3)
		for j := 0; j < k; j++ {
			s := g.addFile(false)
			g.link(a, s, false)
			if j == 0 {
				g.link(s, g.addFile(false), false)
			}
		}
	case "flatten-siblings":
		k := 2 + r.Intn(3)
		for j := 0; j < k; j++ {
			g.link(root, g.addFile(true), true)
		}
	case "chain":
		a, b := g.addFile(false), g.addFile(false)
		g.link(root, a, false)
		g.link(a, b, false)
	case "mixed":
		// random DAG, depth <= 3, 1-4 includes per file, files reused (diamonds, same file twice)
		var grow func(parent, depth int)
		pool := []int{}
		grow = func(parent, depth int) {
			k := 1 + r.Intn(4)
			if depth >= 2 {
				k = r.Intn(3)
			}
			for j := 0; j < k; j++ {
				if len(pool) > 0 && r.Intn(4) == 0 {
					cand := pool[r.Intn(len(pool))]
					if cand != parent && !g.reaches(cand, parent) {
						g.link(parent, cand, false)
						continue
					}
				}
				if len(t.Files) >= 6 {
					continue
				}
				c := g.addFile(false)
				pool = append(pool, c)
				g.link(parent, c, false)
				if depth < 3 {
					grow(c, depth+1)
				}
			}
		}
		grow(root, 1)
	}
	for i, f := range t.Files {
		if len(f.Includes) >= 2 {
			t.Clash = true
			lv := Level{Parent: i}
			for _, inc := range f.Includes {
				lv.NS = append(lv.NS, inc.NS)
			}
			t.Levels = append(t.Levels, lv)
		}
	}
	names := g.names(root, 1)
	seen := map[string]bool{}
	var uniq []string
	for _, n := range names {
		if !seen[n] {
			seen[n] = true
			uniq = append(uniq, n)
		}
	}
	sort.Strings(uniq)
	// bound the call list
	r.Shuffle(len(uniq), func(i, j int) { uniq[i], uniq[j] = uniq[j], uniq[i] })
	// the calls whose binding can depend on the table order come first
	sort.SliceStable(uniq, func(i, j int) bool {
		pi := strings.HasSuffix(uniq[i], "build-zz") || uniq[i] == "lint-vet"
		pj := strings.HasSuffix(uniq[j], "build-zz") || uniq[j] == "lint-vet"
		return pi && !pj
	})
	if len(uniq) > 3 {
		uniq = uniq[:3]
	}
	sort.Strings(uniq)
	t.Calls = uniq
	t.Dry = []string{"default", "all"}
	g.render()
	var hs []string
	for _, f := range t.Files {
		hs = append(hs, f.Path, f.Text)
	}
	var extra []string
	for k := range t.Extra {
		extra = append(extra, k)
	}
	sort.Strings(extra)
	for _, k := range extra {
		hs = append(hs, k, t.Extra[k])
	}
	t.Hash = hashOf(hs...)
	return t
}

func (g *tgen) reaches(from, to int) bool {
	if from == to {
		return true
	}
	for _, inc := range g.t.Files[from].Includes {
		if inc.Target >= 0 && g.reaches(inc.Target, to) {
			return true
		}
	}
	return false
}
