//go:build verif

// Command worker is the in-process half of the C09 check: it links the code
// under test from /repo (build tag verif, so that verifhook.Set exists), loads
// every tree of its job many times and reports, per kind of observable, the
// distinct values it saw. It never judges.
//
//	worker <job.json> <out.json>
package main

import (
	"bytes"
	"context"
	"encoding/json"
	"fmt"
	"os"
	"reflect"
	"runtime"
	"runtime/debug"
	"sort"
	"strings"
	"sync/atomic"
	"time"

	"github.com/go-task/task/v3"
	tsort "github.com/go-task/task/v3/internal/sort"
	"github.com/go-task/task/v3/internal/verifhook"
	"github.com/go-task/task/v3/taskfile/ast"
	"github.com/go-task/task/v3/verifh/p09"
)

var specialVars = map[string]bool{
	"TASK_EXE": true, "ROOT_TASKFILE": true, "ROOT_DIR": true, "USER_WORKING_DIR": true, "TASK_VERSION": true,
	"TASK": true, "TASK_DIR": true, "TASKFILE": true, "TASKFILE_DIR": true, "ALIAS": true,
}

// canon renders a value with maps key-sorted; nothing else is normalised.
func canon(v any) string {
	var b strings.Builder
	canonTo(&b, reflect.ValueOf(v))
	return b.String()
}

func canonTo(b *strings.Builder, v reflect.Value) {
	if !v.IsValid() {
		b.WriteString("nil")
		return
	}
	switch v.Kind() {
	case reflect.Interface, reflect.Pointer:
		if v.IsNil() {
			b.WriteString("nil")
			return
		}
		canonTo(b, v.Elem())
	case reflect.Map:
		keys := v.MapKeys()
		ks := make([]string, len(keys))
		idx := map[string]reflect.Value{}
		for i, k := range keys {
			ks[i] = canon(k.Interface())
			idx[ks[i]] = v.MapIndex(k)
		}
		sort.Strings(ks)
		b.WriteString("map{")
		for i, k := range ks {
			if i > 0 {
				b.WriteString(", ")
			}
			b.WriteString(k)
			b.WriteString(": ")
			canonTo(b, idx[k])
		}
		b.WriteString("}")
	case reflect.Slice, reflect.Array:
		b.WriteString("[")
		for i := 0; i < v.Len(); i++ {
			if i > 0 {
				b.WriteString(", ")
			}
			canonTo(b, v.Index(i))
		}
		b.WriteString("]")
	case reflect.String:
		fmt.Fprintf(b, "%q", v.String())
	default:
		fmt.Fprintf(b, "%v", v.Interface())
	}
}

func varText(v ast.Var) string {
	s := canon(v.Value)
	if v.Live != nil {
		s += " live=" + canon(v.Live)
	}
	if v.Sh != nil {
		s += " sh=" + fmt.Sprintf("%q", *v.Sh)
	}
	if v.Ref != "" {
		s += " ref=" + v.Ref
	}
	if v.Dir != "" {
		s += " dir=" + v.Dir
	}
	return s
}

type comp struct{ b map[string]*strings.Builder }

func newComp() *comp {
	c := &comp{b: map[string]*strings.Builder{}}
	for _, k := range p09.Kinds {
		c.b[k] = &strings.Builder{}
	}
	return c
}
func (c *comp) add(kind, format string, a ...any) { fmt.Fprintf(c.b[kind], format, a...) }

func varsSorted(vs *ast.Vars) string {
	var l []string
	for k, v := range vs.All() {
		l = append(l, k+" = "+varText(v))
	}
	sort.Strings(l)
	return strings.Join(l, "\n    ")
}

func varsKeys(vs *ast.Vars, special bool) string {
	var l []string
	for k := range vs.All() {
		if specialVars[k] == special {
			l = append(l, k)
		}
	}
	return strings.Join(l, " ")
}

func cmdText(c *ast.Cmd) string {
	if c == nil {
		return "<nil>"
	}
	s := ""
	if c.Task != "" {
		s = "task: " + c.Task
		if c.Vars != nil && c.Vars.Len() > 0 {
			s += " vars{" + strings.ReplaceAll(varsSorted(c.Vars), "\n    ", "; ") + "}"
		}
	} else {
		s = "sh: " + c.Cmd
	}
	if c.Defer {
		s = "defer " + s
	}
	return s
}

func (c *comp) compiled(tag, name string, t *ast.Task, err error) {
	if err != nil {
		c.add("compile-error", "%s %s: %T %v\n", tag, name, err, err)
	}
	if t == nil {
		return
	}
	loc := ""
	if t.Location != nil {
		loc = fmt.Sprintf("%s:%d", t.Location.Taskfile, t.Location.Line)
	}
	c.add("binding", "%s %s -> %s (%s)\n", tag, name, t.Task, loc)
	c.add("var-value", "%s %s:\n  vars:\n    %s\n  env:\n    %s\n", tag, name, varsSorted(t.Vars), varsSorted(t.Env))
	c.add("compiled-var-order", "%s %s: %s | env: %s\n", tag, name, varsKeys(t.Vars, false), varsKeys(t.Env, false))
	c.add("special-var-order", "%s %s: %s\n", tag, name, varsKeys(t.Vars, true))
	var cl []string
	for _, cmd := range t.Cmds {
		cl = append(cl, cmdText(cmd))
	}
	var dl []string
	for _, d := range t.Deps {
		if d != nil {
			dl = append(dl, d.Task)
		}
	}
	c.add("cmd-line", "%s %s: dir=%s label=%q prefix=%q method=%q run=%q\n    %s\n  deps: %s\n", tag, name, t.Dir, t.Label, t.Prefix, t.Method, t.Run,
		strings.Join(cl, "\n    "), strings.Join(dl, " "))
}

var devnull *os.File

// load performs one complete load of a tree and returns kind -> canonical text.
func load(t *p09.Tree, dry bool, seq int) map[string]string {
	c := newComp()
	var so, se bytes.Buffer
	e := task.NewExecutor()
	e.Dir = t.Dir
	e.UserWorkingDir = t.Dir
	e.Stdin = devnull
	e.Stdout = &so
	e.Stderr = &se
	e.Dry = true
	e.Timeout = 10 * time.Minute
	e.TempDir = task.TempDir{Remote: t.Dir + "/.task", Fingerprint: t.Dir + "/.task"}
	err := e.Setup()
	if err != nil {
		// the message may name whichever duplicate was met first; only the class is compared
		c.add("setup-error", "%T\n", err)
	} else {
		c.add("setup-error", "none\n")
	}
	if err == nil && e.Taskfile != nil {
		var names []string
		for name, tk := range e.Taskfile.Tasks.All(nil) {
			names = append(names, name)
			_ = tk
		}
		c.add("task-order", "%s\n", strings.Join(names, "\n"))
		sorted := append([]string(nil), names...)
		sort.Strings(sorted)
		c.add("task-set", "%s\n", strings.Join(sorted, "\n"))
		for _, name := range sorted {
			tk, _ := e.Taskfile.Tasks.Get(name)
			c.add("alias-order", "%s: %s\n", name, strings.Join(tk.Aliases, " "))
			as := append([]string(nil), tk.Aliases...)
			sort.Strings(as)
			c.add("aliases", "%s: %s\n", name, strings.Join(as, " "))
		}
		c.add("global-var-value", "vars:\n    %s\nenv:\n    %s\n", varsSorted(e.Taskfile.Vars), varsSorted(e.Taskfile.Env))
		c.add("global-var-order", "vars: %s\nenv: %s\n", varsKeys(e.Taskfile.Vars, false), varsKeys(e.Taskfile.Env, false))
		for _, name := range sorted {
			ft, ferr := e.FastCompiledTask(&task.Call{Task: name})
			c.compiled("fast", name, ft, ferr)
			ct, cerr := e.CompiledTask(&task.Call{Task: name})
			c.compiled("full", name, ct, cerr)
		}
		for _, name := range t.Calls {
			bt, berr := e.GetTask(&task.Call{Task: name})
			if berr != nil {
				c.add("binding", "call %s -> %T\n", name, berr)
			} else {
				c.add("binding", "call %s -> %s (%s:%d)\n", name, bt.Task, bt.Location.Taskfile, bt.Location.Line)
			}
		}
		for _, name := range t.Dry {
			if !dry {
				break
			}
			so.Reset()
			se.Reset()
			rerr := e.Run(context.Background(), &task.Call{Task: name})
			es := "ok"
			if rerr != nil {
				es = fmt.Sprintf("%T %v", rerr, rerr)
			}
			c.add("dry-run", "$ task --dry %s  => %s\n%s%s", name, es, se.String(), so.String())
		}
	}
	observed := map[string]bool{}
	if err == nil && e.Taskfile != nil {
		// really execute the tasks whose commands only print what they see
		if len(t.Exec) > 0 {
			observed["run-output"] = true
			e.Dry = false
			for _, name := range t.Exec {
				so.Reset()
				se.Reset()
				rerr := e.Run(context.Background(), &task.Call{Task: name})
				es := "ok"
				if rerr != nil {
					es = fmt.Sprintf("%T %v", rerr, rerr)
				}
				c.add("run-output", "$ task %s  => %s\n%s%s", name, es, se.String(), so.String())
			}
			e.Dry = true
		}
		// the listing with one of the sorters in one of the formats: every second load, in rotation
		sorter := p09.Sorters[(seq/2)%3]
		format := []string{"text", "json"}[(seq/6)%2]
		switch {
		case seq%2 != 0:
			sorter = ""
		}
		switch sorter {
		case "default":
			e.TaskSorter = tsort.AlphaNumericWithRootTasksFirst
		case "alphanumeric":
			e.TaskSorter = tsort.AlphaNumeric
		case "none":
			e.TaskSorter = tsort.NoSort
		}
		if sorter != "" {
			so.Reset()
			se.Reset()
			_, lerr := e.ListTasks(task.ListOptions{ListAllTasks: true, FormatTaskListAsJSON: format == "json", NoStatus: true})
			kind := "list-" + sorter + "-" + format
			observed[kind] = true
			c.add(kind, "err=%v\n%s%s", lerr, so.String(), se.String())
		}
	}
	out := map[string]string{}
	for k, b := range c.b {
		if err != nil && k != "setup-error" {
			continue // the load ended in Setup: its outcome is the error class, nothing else was observed
		}
		if k == "dry-run" && !dry {
			continue // not observed in this load
		}
		if (k == "run-output" || strings.HasPrefix(k, "list-")) && !observed[k] {
			continue
		}
		out[k] = b.String()
	}
	return out
}

func record(obs map[string]*p09.Obs, comps map[string]string) map[string]string {
	hs := map[string]string{}
	for k, text := range comps {
		hv := p09.HashOf(text)
		hs[k] = hv
		o := obs[k]
		if o == nil {
			o = &p09.Obs{Count: map[string]int{}, Text: map[string]string{}}
			obs[k] = o
		}
		o.Count[hv]++
		if _, ok := o.Text[hv]; !ok && len(o.Text) < 12 {
			o.Text[hv] = text
		}
	}
	return hs
}

// hook state of the load in progress
type hookState struct {
	release map[string]chan struct{}
	parked  chan string
	linked  chan string
}

var loadSeq atomic.Int64

var cur atomic.Pointer[hookState]
var events atomic.Int64

func handler(point, detail string) {
	st := cur.Load()
	if st == nil {
		return
	}
	switch point {
	case "include.fetched":
		if ch, ok := st.release[detail]; ok {
			events.Add(1)
			st.parked <- detail
			<-ch // outside the graph lock: may block
		}
	case "include.linked":
		if _, ok := st.release[detail]; ok {
			events.Add(1)
			st.linked <- detail // buffered: never blocks (inside the graph lock)
		}
	}
}

const watchdog = 60 * time.Second

// loadOrdered loads the tree while the include readers of one level complete in
// exactly the order perm. A fired watchdog is reported as inconclusive.
func loadOrdered(t *p09.Tree, perm []string) (comps map[string]string, linked []string, parked int, inconc string) {
	if t.Fault != "" {
		return loadOrderedPartial(t, perm)
	}
	st := &hookState{release: map[string]chan struct{}{}, parked: make(chan string, len(perm)), linked: make(chan string, len(perm)+1)}
	for _, ns := range perm {
		st.release[ns] = make(chan struct{})
	}
	cur.Store(st)
	defer cur.Store(nil)
	done := make(chan map[string]string, 1)
	go func() { done <- load(t, true, int(loadSeq.Add(1))) }()
	released := map[string]bool{}
	releaseAll := func() {
		for ns, ch := range st.release {
			if !released[ns] {
				released[ns] = true
				close(ch)
			}
		}
	}
	wd := time.NewTimer(watchdog)
	defer wd.Stop()
	// wait until all siblings are parked (a count, not a timer)
	for parked < len(perm) {
		select {
		case <-st.parked:
			parked++
		case comps = <-done:
			// the load ended before every sibling arrived (an error path): nothing to order
			return comps, linked, parked, fmt.Sprintf("load ended with %d of %d siblings parked", parked, len(perm))
		case <-wd.C:
			releaseAll()
			comps = <-done
			return comps, linked, parked, "watchdog: siblings did not all arrive at include.fetched"
		}
	}
	for _, ns := range perm {
		released[ns] = true
		close(st.release[ns])
		select {
		case l := <-st.linked:
			linked = append(linked, l)
		case comps = <-done:
			return comps, linked, parked, "load ended before include.linked of " + ns
		case <-wd.C:
			releaseAll()
			comps = <-done
			return comps, linked, parked, "watchdog: include.linked of " + ns + " not seen"
		}
	}
	select {
	case comps = <-done:
	case <-wd.C:
		return nil, linked, parked, "watchdog: load did not finish"
	}
	return comps, linked, parked, ""
}

// grace is a scheduling strategy, never a verdict: in a fault-bearing tree a
// sibling reader may end with an error and never arrive at include.fetched, so
// the driver cannot wait for a count. After a quiet period the siblings that
// did arrive are released in the order of perm; the outcome is recorded, and
// linked reports only the part of the order that could be enforced.
const grace = 250 * time.Millisecond

func loadOrderedPartial(t *p09.Tree, perm []string) (comps map[string]string, linked []string, parked int, inconc string) {
	st := &hookState{release: map[string]chan struct{}{}, parked: make(chan string, len(perm)), linked: make(chan string, len(perm)+1)}
	for _, ns := range perm {
		st.release[ns] = make(chan struct{})
	}
	cur.Store(st)
	defer cur.Store(nil)
	done := make(chan map[string]string, 1)
	go func() { done <- load(t, true, int(loadSeq.Add(1))) }()
	arrived := map[string]bool{}
	released := map[string]bool{}
	release := func(ns string) {
		if !released[ns] {
			released[ns] = true
			close(st.release[ns])
		}
	}
	defer func() {
		for _, ns := range perm {
			release(ns)
		}
	}()
	wd := time.NewTimer(watchdog)
	defer wd.Stop()
wait:
	for parked < len(perm) {
		select {
		case ns := <-st.parked:
			arrived[ns] = true
			parked++
		case comps = <-done:
			return comps, perm, parked, ""
		case <-time.After(grace):
			break wait
		case <-wd.C:
			break wait
		}
	}
	for _, ns := range perm {
		if !arrived[ns] {
			release(ns) // passes through whenever it arrives
			continue
		}
		release(ns)
		select {
		case <-st.linked:
		case comps = <-done:
			return comps, perm, parked, ""
		case <-time.After(grace):
		}
	}
	select {
	case comps = <-done:
	case <-wd.C:
		return nil, perm, parked, "watchdog: load did not finish"
	}
	return comps, perm, parked, ""
}

// progress records how many loads of the tree completed, for the driver to read if this process never returns.
func progress(out string, tree, done int) {
	os.WriteFile(out+".progress", []byte(fmt.Sprintf("%d %d\n", tree, done)), 0o644)
}

func perms(l []string) [][]string {
	if len(l) <= 1 {
		return [][]string{append([]string(nil), l...)}
	}
	var out [][]string
	for i := range l {
		rest := append(append([]string(nil), l[:i]...), l[i+1:]...)
		for _, p := range perms(rest) {
			out = append(out, append([]string{l[i]}, p...))
		}
	}
	return out
}

func main() {
	if len(os.Args) < 3 {
		fmt.Fprintln(os.Stderr, "usage: worker job.json out.json")
		os.Exit(2)
	}
	b, err := os.ReadFile(os.Args[1])
	if err != nil {
		fmt.Fprintln(os.Stderr, err)
		os.Exit(2)
	}
	var job p09.Job
	if err := json.Unmarshal(b, &job); err != nil {
		fmt.Fprintln(os.Stderr, err)
		os.Exit(2)
	}
	runtime.GOMAXPROCS(job.GMP)
	debug.SetGCPercent(800) // every template call allocates a fresh func map; do not spend the budget collecting it
	devnull, _ = os.Open(os.DevNull)
	verifhook.Set(handler)
	var out p09.Out
	for _, t := range job.Trees {
		os.Chdir(t.Dir)
		res := &p09.TreeResult{Tree: t.Index, GMP: job.GMP, Free: map[string]*p09.Obs{}, Hook: map[string]*p09.Obs{}}
		for i := 0; i < job.Loads; i++ {
			comps := load(t, job.DryEvery <= 1 || i%job.DryEvery == 0, i)
			record(res.Free, comps)
			res.Loads++
			res.Done++
			progress(os.Args[2], t.Index, res.Done)
			if i == 0 {
				var sb strings.Builder
				for _, k := range p09.Kinds {
					if k == "var-value" || k == "compiled-var-order" || k == "special-var-order" {
						continue
					}
					fmt.Fprintf(&sb, "## %s\n%s", k, comps[k])
				}
				res.Sample = sb.String()
			}
		}
		if job.Hook {
			for _, lv := range t.Levels {
				if len(lv.NS) > 4 {
					continue
				}
				for _, perm := range perms(lv.NS) {
					pr := p09.PermRun{Parent: lv.Parent, Perm: perm, Hashes: map[string][]string{}}
					for r := 0; r < job.Repeats; r++ {
						comps, linked, parked, inconc := loadOrdered(t, perm)
						pr.Parked += parked
						if inconc != "" {
							pr.Inconc = inconc
							break
						}
						if strings.Join(linked, " ") != strings.Join(perm, " ") {
							pr.Inconc = fmt.Sprintf("enforced order %v but include.linked arrived as %v", perm, linked)
							break
						}
						pr.Linked = linked
						pr.Repeats++
						res.Done++
						progress(os.Args[2], t.Index, res.Done)
						hs := record(res.Hook, comps)
						for k, hv := range hs {
							pr.Hashes[k] = append(pr.Hashes[k], hv)
						}
					}
					res.Perms = append(res.Perms, pr)
				}
			}
		}
		out.Results = append(out.Results, res)
	}
	out.Events = events.Load()
	ob, _ := json.Marshal(out)
	if err := os.WriteFile(os.Args[2], ob, 0o644); err != nil {
		fmt.Fprintln(os.Stderr, err)
		os.Exit(2)
	}
}
