//go:build !verif

// Without the verif build tag the hook package has no Set; the real worker is
// in main.go (built by the C09 driver with -tags verif).
package main

import (
	"fmt"
	"os"
)

func main() {
	fmt.Fprintln(os.Stderr, "p09 worker: build with -tags verif")
	os.Exit(2)
}
