package p09

import (
	"encoding/json"
	"fmt"
	"os"
	"os/exec"
	"path/filepath"
	"sort"
	"strings"
	"sync"
	"time"

	"github.com/go-task/task/v3/verifh/h"
	"github.com/go-task/task/v3/verifh/p08/hang"
)

// workerWatchdog is generous; when it fires the worker's goroutine dump is judged (package hang).
const workerWatchdog = 45 * time.Minute

// sigShape is the role tag of a tree in signatures.
func sigShape(t *Tree) string {
	if t.Fault != "" {
		return t.Shape + "-" + t.Fault
	}
	return t.Shape
}

const rule = "trees: seeded include trees of profile incl-clash (2-4 sibling includes defining the same global variable V, env E, a dir-sensitive sh variable P and same-named / overlapping wildcard tasks; one file included twice at one level under two namespaces with different dir; diamonds; nested siblings; flattened siblings with overlapping wildcards; chains as controls; random DAGs of depth <= 3; a dotenv shape: root-level and task-level dotenv files whose values refer to each other and to global vars, with two tasks that are really executed and only print their environment; fault diamonds: a common file broken in one of {missing required include, version mismatch, no version, cycle, flatten conflict} that one sibling includes optionally and the other normally: the OUTCOME, error class or success plus dump, must be the same in every load). " +
	"schedules per tree: (i) N free-running loads in one process (N per GOMAXPROCS value in coverage.loads_per_tree) (fresh Executor, Setup, dump; dry run of a fixed call list in every coverage.dry_run_every_nth_free_load-th load), (ii) with the include.fetched/include.linked hooks every one of the k! completion orders of the k<=4 sibling include readers of each level, each repeated R times, (iii) the whole under GOMAXPROCS 1, 4 and 16. " +
	"oracle: each load is reduced to a canonical dump (maps inside values key-sorted, nothing else normalised) split into kinds (task set, task order, aliases, global var values/order, call binding, compiled var values, compiled var order, command lines, compile errors, dry-run output, output of the executed print-only tasks, the task listing as text and JSON under each sorter default/alphanumeric/none, one sorter and format per load in rotation); one tree must yield one value per kind over all its loads. No model of which value is right. " +
	"evaluations = loads performed; a case is (tree, schedule) with schedule in {free@gmp, (level, completion order)@gmp}; non-trivial = the tree has a level with >= 2 sibling includes; distinct by (hash of the tree's files, schedule)."

var gmps = []int{1, 4, 16}

// Run is the C09 check.
func Run(id string, start time.Time) int {
	part := h.NewPartial()
	scratch := h.Scratch(id)
	defer os.RemoveAll(scratch)

	ntrees := h.Pick(PlanLen(), 2*PlanLen())
	loads := h.Pick(200, 2000)  // free-running loads per tree in one process at GOMAXPROCS=4
	loadsAlt := h.Pick(10, 200) // ... and in one process each at GOMAXPROCS=1 and 16
	repeats := h.Pick(3, 6)     // loads per enforced completion order (GOMAXPROCS=4 process)
	repeatsAlt := h.Pick(1, 2)
	faultLoads := h.Pick(400, 2000) // loads of a fault-bearing tree under each GOMAXPROCS value
	dryEvery := h.Pick(2, 1)        // quick: the dry run is part of every second free-running load  // ... at GOMAXPROCS=1 and 16

	// 1. generate and write the trees
	var trees []*Tree
	for i := 0; i < ntrees; i++ {
		t := GenTree(h.Rng(9, int64(i)), i)
		t.Dir = filepath.Join(scratch, "trees", fmt.Sprintf("t%04d", i))
		files := map[string]string{}
		for _, f := range t.Files {
			files[f.Path] = f.Text
			d := filepath.Dir(f.Path)
			for k := 0; k < 3; k++ {
				files[filepath.Join(d, fmt.Sprintf("wd%d", k), ".keep")] = ""
			}
		}
		for k, v := range t.Extra {
			files[k] = v
		}
		if err := h.WriteTree(t.Dir, files); err != nil {
			fmt.Fprintf(os.Stderr, "%s: %v\n", id, err)
			return 2
		}
		trees = append(trees, t)
		part.SetAdd("shapes", t.Shape)
	}

	// 2. build the worker against the repository's working tree
	worker := filepath.Join(scratch, "p09worker")
	args := []string{"build", "-tags", "verif"}
	if mf := os.Getenv("VERIF_MODFILE"); mf != "" {
		// mutant runs: an alternative go.mod whose replace points at a scratch copy of the repository
		args = append(args, "-modfile="+mf)
	}
	cmd := exec.Command("go", append(args, "-o", worker, "./p09/worker")...)
	cmd.Dir = filepath.Join(h.VerifDir(), "harness")
	cmd.Env = h.GoEnv()
	if b, err := cmd.CombinedOutput(); err != nil {
		fmt.Fprintf(os.Stderr, "%s: building the worker against %s failed: %v\n%s\n", id, h.RepoDir(), err, b)
		return 2
	}

	// 3. jobs: every tree under every GOMAXPROCS value
	type jobRef struct {
		job  Job
		path string
		out  string
	}
	var jobs []jobRef
	for _, gmp := range gmps {
		for i, t := range trees {
			n, rep := loads, repeats
			if gmp != 4 {
				n, rep = loadsAlt, repeatsAlt
			}
			if t.Fault != "" {
				// fault-bearing trees mostly end in Setup: cheap, and their outcome depends on a race
				// between reader goroutines, so they get more loads under every GOMAXPROCS value
				n = faultLoads
			}
			j := Job{Trees: trees[i : i+1], Loads: n, Repeats: rep, GMP: gmp, Hook: true, DryEvery: dryEvery}
			name := fmt.Sprintf("job-g%d-%04d", gmp, i)
			jobs = append(jobs, jobRef{job: j, path: filepath.Join(scratch, name+".json"), out: filepath.Join(scratch, name+".out.json")})
		}
	}
	// heavy jobs first
	sort.SliceStable(jobs, func(i, j int) bool { return jobs[i].job.Loads > jobs[j].job.Loads })
	results := map[int][]*TreeResult{}
	var mu sync.Mutex
	var events int64
	h.Parallel(len(jobs), 16, func(i int) {
		j := jobs[i]
		b, _ := json.Marshal(j.job)
		os.WriteFile(j.path, b, 0o644)
		c := exec.Command(worker, j.path, j.out)
		c.Dir = scratch
		c.Env = append(h.BaseEnv(scratch), "TASK_TEMP_DIR=.task")
		// the loads run in a child: a crash or a deadlock of the code under test is an observation
		hr := hang.Run(c, workerWatchdog)
		var out Out
		var err error
		if hr.Exit != 0 || hr.Fired {
			err = fmt.Errorf("exit %d", hr.Exit)
		} else {
			var rb []byte
			rb, err = os.ReadFile(j.out)
			if err == nil {
				err = json.Unmarshal(rb, &out)
			}
		}
		mu.Lock()
		defer mu.Unlock()
		if err != nil {
			t := j.job.Trees[0]
			done := 0
			fmt.Sscanf(h.ReadFile(j.out+".progress"), "%d %d", new(int), &done)
			part.Count("worker_failures", 1)
			switch {
			case (hr.Fired || hr.RuntimeDeadlock) && hr.Deadlock && done > 0:
				// other loads of the same tree completed: the outcome of a load is not a function of the tree
				w := map[string]string{"goroutine_dump.txt": h.Truncate(hr.Dump, 20000)}
				for _, f := range t.Files {
					w["project/"+f.Path] = f.Text
				}
				part.Violation(fmt.Sprintf("C09 | outcome | deadlock-after-completed-loads | %s | %s", sigShape(t), hr.Frame),
					fmt.Sprintf("tree %d (%s) GOMAXPROCS %d: %d loads completed, then one load deadlocked (%s) at %s", t.Index, t.Shape, j.job.GMP, done, hr.Why, hr.Frame), w)
			case hr.Fired || hr.RuntimeDeadlock:
				part.Inconc(fmt.Sprintf("tree %d (%s) GOMAXPROCS %d: the worker never returned after %d completed loads (deadlock=%v: %s); a load that always hangs is C08's subject, not a nondeterminism", t.Index, t.Shape, j.job.GMP, done, hr.Deadlock, hr.Why))
			default:
				part.Inconc(fmt.Sprintf("tree %d (%s) GOMAXPROCS %d: worker died after %d loads: %v: %s", t.Index, t.Shape, j.job.GMP, done, err, h.Truncate(hr.Stderr, 600)))
			}
			return
		}
		events += out.Events
		for _, r := range out.Results {
			results[r.Tree] = append(results[r.Tree], r)
		}
	})
	part.Count("hook_arrivals", events)

	// 4. judge
	allPermsDone := true
	var levels, orders int64
	for _, t := range trees {
		rs := results[t.Index]
		if len(rs) == 0 {
			continue
		}
		free := map[string]*Obs{}
		hook := map[string]*Obs{}
		var treeLoads int64
		for _, r := range rs {
			mergeObs(free, r.Free)
			mergeObs(hook, r.Hook)
			treeLoads += int64(r.Loads)
			part.Eval(t.Hash+fmt.Sprintf("|free@%d", r.GMP), t.Clash)
			part.Evals += int64(r.Loads) - 1
			for _, in := range r.Inconc {
				part.Inconc(fmt.Sprintf("tree %d gmp %d: %s", t.Index, r.GMP, in))
			}
		}
		part.Count("loads_free", treeLoads)
		part.Count("loads", treeLoads)
		if len(part.Samples) < 3 && t.Clash {
			var files []string
			for _, f := range t.Files {
				files = append(files, "--- "+f.Path+"\n"+f.Text)
			}
			part.Sample(map[string]any{"tree": t.Index, "shape": t.Shape, "files": files, "calls": t.Calls,
				"loads": treeLoads, "dump_of_first_load": h.Truncate(rs[0].Sample, 3000)}, 3)
		}
		// (i)+(iii): free-running loads, all GOMAXPROCS values together
		for _, kind := range Kinds {
			o := free[kind]
			if o == nil {
				continue
			}
			part.Max("max_distinct_"+kind, int64(len(o.Count)))
			if len(o.Count) > 1 && ObservedOnly[kind] {
				part.Count("trees_varying_in_"+kind+"_not_judged", 1)
				continue
			}
			if len(o.Count) > 1 {
				report(part, t, kind, "", o, fmt.Sprintf("%d free-running loads (GOMAXPROCS 1,4,16) of one tree gave %d different values of %q", treeLoads, len(o.Count), kind))
			}
		}
		// (ii): enforced completion orders
		type lk struct {
			parent int
			kind   string
		}
		perPerm := map[lk]map[string]map[string]bool{} // (level,kind) -> perm -> set of hashes
		seenLevel := map[int]bool{}
		for _, r := range rs {
			for _, pr := range r.Perms {
				key := fmt.Sprintf("|L%d:%s@%d", pr.Parent, strings.Join(pr.Perm, ">"), r.GMP)
				if pr.Inconc != "" {
					allPermsDone = false
					part.Inconc(fmt.Sprintf("tree %d level f%d order %v gmp %d: %s", t.Index, pr.Parent, pr.Perm, r.GMP, pr.Inconc))
					continue
				}
				part.Eval(t.Hash+key, true)
				part.Evals += int64(pr.Repeats) - 1
				part.Count("loads_ordered", int64(pr.Repeats))
				part.Count("loads", int64(pr.Repeats))
				part.Count("siblings_parked", int64(pr.Parked))
				part.SetAdd("completion_orders", t.Hash+fmt.Sprintf("|L%d:%s", pr.Parent, strings.Join(pr.Perm, ">")))
				part.Max("max_siblings", int64(len(pr.Perm)))
				orders++
				if !seenLevel[pr.Parent] {
					seenLevel[pr.Parent] = true
					levels++
				}
				for kind, hs := range pr.Hashes {
					m := perPerm[lk{pr.Parent, kind}]
					if m == nil {
						m = map[string]map[string]bool{}
						perPerm[lk{pr.Parent, kind}] = m
					}
					ps := strings.Join(pr.Perm, ">")
					if m[ps] == nil {
						m[ps] = map[string]bool{}
					}
					for _, hv := range hs {
						m[ps][hv] = true
					}
				}
			}
		}
		var lks []lk
		for k := range perPerm {
			lks = append(lks, k)
		}
		sort.Slice(lks, func(i, j int) bool {
			if lks[i].parent != lks[j].parent {
				return lks[i].parent < lks[j].parent
			}
			return lks[i].kind < lks[j].kind
		})
		for _, k := range lks {
			if ObservedOnly[k.kind] {
				continue
			}
			m := perPerm[k]
			within := false
			all := map[string]bool{}
			var detail []string
			var ps []string
			for p := range m {
				ps = append(ps, p)
			}
			sort.Strings(ps)
			for _, p := range ps {
				if len(m[p]) > 1 {
					within = true
				}
				var hl []string
				for hv := range m[p] {
					all[hv] = true
					hl = append(hl, hv)
				}
				sort.Strings(hl)
				detail = append(detail, fmt.Sprintf("order %s -> %s", p, strings.Join(hl, ",")))
			}
			if len(all) <= 1 {
				continue
			}
			o := &Obs{Count: map[string]int{}, Text: map[string]string{}}
			for hv := range all {
				o.Count[hv] = 0
				if ho := hook[k.kind]; ho != nil {
					o.Count[hv] = ho.Count[hv]
					o.Text[hv] = ho.Text[hv]
				}
			}
			if within {
				// not explained by the completion order: same signature as the free-running finding
				report(part, t, k.kind, "", o, fmt.Sprintf("with the completion order of the include readers of f%d held fixed, repeated loads still gave different values of %q:\n%s", k.parent, k.kind, strings.Join(detail, "\n")))
			} else {
				report(part, t, k.kind, "by-completion-order", o, fmt.Sprintf("every load under one completion order of the sibling include readers of f%d gave the same value of %q, different orders gave different values (consistent with a dependence on the completion order):\n%s", k.parent, k.kind, strings.Join(detail, "\n")))
			}
		}
	}
	part.Count("trees", int64(len(trees)))
	part.Count("levels_enumerated", levels)

	exh := allPermsDone && orders > 0
	return h.Finish(h.Report{
		ID: id, Level: "exploration", Rule: rule, Start: start,
		Assumptions: []string{
			"the worker links /repo's packages in-process (build tag verif); hooks only park/notify include-reader goroutines, no verdict is computed from hook arguments",
			"every namespace is unique within a tree so that a hook arrival identifies its include entry",
			"Setup error messages are compared by Go type only (a message may legitimately name whichever clash was met first)",
			"tasks of the generated trees have no parallel deps, so the dry-run listing has no permitted interleaving",
			"the order of the special variables (TASK, ROOT_DIR, ...) inside a compiled task's Vars is recorded (max_distinct_special-var-order, trees_varying_in_special-var-order_not_judged) but not judged: the statement requires 'the same variable values and command lines for every task', not an order of the entries of a task's variable set, and that order reaches no value, command line or output",
		},
		Exhaustive: &exh,
		Extra: map[string]any{
			"exhaustive_subspace":         fmt.Sprintf("all k! completion orders of the k<=4 sibling include readers of every level with >=2 includes: %d (tree,level,GOMAXPROCS) levels, %d orders, each repeated %d times (GOMAXPROCS=4) / %d times (1, 16); the free-running loads are a sample, not exhaustive", levels, orders, repeats, repeatsAlt),
			"gomaxprocs":                  gmps,
			"loads_per_tree":              map[string]int{"gomaxprocs=4": loads, "gomaxprocs=1": loadsAlt, "gomaxprocs=16": loadsAlt, "fault-bearing trees, each gomaxprocs": faultLoads},
			"kinds":                       Kinds,
			"dry_run_every_nth_free_load": dryEvery,
		},
		MinEvents: int64(len(trees)) * int64(loads), EventsKey: "loads_free",
	}, part)
}

func mergeObs(dst map[string]*Obs, src map[string]*Obs) {
	for k, o := range src {
		d := dst[k]
		if d == nil {
			d = &Obs{Count: map[string]int{}, Text: map[string]string{}}
			dst[k] = d
		}
		for hv, n := range o.Count {
			d.Count[hv] += n
		}
		for hv, tx := range o.Text {
			if _, ok := d.Text[hv]; !ok {
				d.Text[hv] = tx
			}
		}
	}
}

// lineDiff lists lines only in a and only in b.
func lineDiff(a, b string) string {
	la, lb := strings.Split(a, "\n"), strings.Split(b, "\n")
	sa, sb := map[string]int{}, map[string]int{}
	for _, l := range la {
		sa[l]++
	}
	for _, l := range lb {
		sb[l]++
	}
	var out []string
	n := 0
	for _, l := range la {
		if sb[l] == 0 && n < 40 {
			out = append(out, "- "+l)
			n++
		}
	}
	n = 0
	for _, l := range lb {
		if sa[l] == 0 && n < 40 {
			out = append(out, "+ "+l)
			n++
		}
	}
	if len(out) == 0 {
		return "(same lines, different order)\nA:\n" + h.Truncate(a, 1500) + "\nB:\n" + h.Truncate(b, 1500)
	}
	return strings.Join(out, "\n")
}

func report(part *h.Partial, t *Tree, kind, cause string, o *Obs, what string) {
	role := sigShape(t)
	if strings.HasPrefix(kind, "list-") {
		role = "-" // the listing code is the same for every shape
	}
	sigKind := kind
	sig := fmt.Sprintf("C09 | %s | %s", sigKind, role)
	if cause != "" {
		sig += " | " + cause
	}
	var hs []string
	for hv := range o.Count {
		hs = append(hs, hv)
	}
	sort.Slice(hs, func(i, j int) bool {
		if (o.Text[hs[i]] != "") != (o.Text[hs[j]] != "") {
			return o.Text[hs[i]] != ""
		}
		if o.Count[hs[i]] != o.Count[hs[j]] {
			return o.Count[hs[i]] > o.Count[hs[j]]
		}
		return hs[i] < hs[j]
	})
	w := map[string]string{}
	for _, f := range t.Files {
		w["project/"+f.Path] = f.Text
	}
	type val struct {
		Hash  string `json:"hash"`
		Loads int    `json:"loads"`
		Text  string `json:"text"`
	}
	var vals []val
	for i, hv := range hs {
		if i < 6 {
			vals = append(vals, val{hv, o.Count[hv], h.Truncate(o.Text[hv], 6000)})
		}
	}
	diff := ""
	if len(hs) >= 2 {
		diff = lineDiff(o.Text[hs[0]], o.Text[hs[1]])
	}
	cj, _ := json.MarshalIndent(map[string]any{
		"seed": h.Seed(), "tier": h.Tier(), "tree": t.Index, "shape": t.Shape, "kind": kind, "cause": cause,
		"expected": "one value of this kind over all loads of the tree", "observed_distinct_values": len(hs),
		"values": vals, "calls": t.Calls, "levels": t.Levels,
	}, "", " ")
	w["case.json"] = string(cj)
	w["diff.txt"] = diff
	w["replay.sh"] = "#!/bin/sh\n# repeated invocations of the real CLI in project/ ; compare the outputs\ncd \"$(dirname \"$0\")/project\" && for i in $(seq 1 40); do task --list-all --json 2>&1 | grep '\"name\"' | tr -d ' \\n'; echo; done | sort | uniq -c\n"
	part.Violation(sig, fmt.Sprintf("tree %d (%s): %s; first difference:\n%s", t.Index, t.Shape, what, h.Truncate(diff, 700)), w)
}
