#!/usr/bin/env python3
"""Regenerates /verif/MANIFEST.json from the table below (kept in one place so it stays valid)."""
import json, os, subprocess
HERE = os.path.dirname(os.path.dirname(os.path.abspath(__file__)))
props = [json.loads(l)["id"] for l in open(os.path.join(HERE, "properties.jsonl"))]

E1_NOTE = ("trusted base: the reference semantics harness/gen/model.go (written from the documentation), testing/synctest quiescence "
           "detection, the gate writer; interleavings below one gated Write / hook pause are sampled, not enumerated; verdict = held on the executions produced")

checks = {
 "C01": dict(engine="E1 sched", technique="runtime monitoring: online trace-inclusion monitor over gated command events of the real Executor under driver-chosen schedules (synctest)",
    level="exploration", design="§4 C01",
    text="every explored (program, schedule) pair is an execution of the real Executor in which each command start was checked against 'all deps complete and successful'; small programs get all release orders. Right level: the property quantifies over schedules, which only controlled execution can produce; no claim beyond the explored executions."),
 "C02": dict(engine="E1 sched", technique="runtime monitoring: online sequence/prerequisite monitor and payload check over gated command events (synctest)",
    level="exploration", design="§4 C02",
    text="each explored execution is checked online for strict per-task sequencing, synchronous calls (callee with deps and defers complete before the caller's next command), loop order and passed variables."),
 "C03": dict(engine="E1 sched + E2 clibox", technique="runtime monitoring: positional downstream monitor on gated events + CLI exit-status oracle",
    level="exploration", design="§4 C03",
    text="after every observed non-ignored failure no downstream command may become pending in any explored schedule; exit statuses are observed on the real CLI for an enumerated table of failure positions, codes and flags."),
 "C06": dict(engine="E1 sched", technique="runtime monitoring: identity-carrying probes, execution counting and ordering monitor under controlled schedules",
    level="exploration", design="§4 C06",
    text="executions of deduplicated tasks are counted by identity in every explored schedule; referrers must wait for and observe the single execution."),
 "C07": dict(engine="E1 sched + E2 clibox", technique="runtime monitoring: quiescent-state invariants (slot bound, deadlock, work conservation) read off synctest snapshots; CLI monitor for cycles under CPU/memory limits",
    level="exploration", design="§4 C07",
    text="at every quiescent state of every explored schedule: pending commands <= N, no empty non-final state, pending = min(N, enabled); termination is bounded progress (Run returned in every schedule); cyclic Taskfiles end with 204/201 within limits."),
 "C13": dict(engine="E1 sched + E2 clibox", technique="runtime monitoring: zero-event monitor for guarded-out tasks under controlled schedules + CLI exit-status table",
    level="exploration", design="§4 C13",
    text="no command event of a guarded-out task may ever become pending; dependents and callers must fail; exit statuses from the real CLI over the guard x position x flag skeleton."),
 "C14": dict(engine="E1 sched", technique="runtime monitoring: defer count/order/position monitor and EXIT_CODE payload check on gated events",
    level="exploration", design="§4 C14",
    text="defer events are checked online (only after the last executed command, reverse order, before the caller continues), and at the end of each run every certainly registered defer must have run exactly once."),
}
notes = {k: E1_NOTE for k in checks}

extra_file = os.path.join(HERE, "tools", "manifest_extra.json")
if os.path.exists(extra_file):
    extra = json.load(open(extra_file))
    for k, v in extra.get("checks", {}).items():
        checks[k] = v
        notes[k] = v.get("note", "")
    NA = extra.get("not_applicable", {})
else:
    NA = {}

hook_commits = subprocess.run(["git", "-C", "/repo", "log", "--format=%H", "--grep=^verif:"], capture_output=True, text=True).stdout.split()

m = {
 "version": 1,
 "setup_cmd": "bin/setup",
 "hooks": {
   "guard": "verif",
   "enable": "go build -tags verif (every check builds /repo's working tree with -tags verif)",
   "baseline_off_cmd": "cd /repo && GOFLAGS=-mod=mod GOPROXY=off GOSUMDB=off GOTOOLCHAIN=local go test -mod=mod -json -vet=off -count=1 -timeout 25m ./...",
   "source_commits": hook_commits,
   "add_only": True,
 },
 "engines": [
   {"name": "E1 sched", "path": "harness/sched, harness/gen", "serves_properties": ["C01","C02","C03","C06","C07","C13","C14","C17"], "kind_free_text": "real task.Executor inside a testing/synctest bubble; every Write on Stdout is gated; a driver releases one blocked command per quiescent state (dfs/random/pct/starve/lifo/fifo) while a reference model checks every pending event online"},
   {"name": "E2 clibox", "path": "harness/cmd/box", "serves_properties": ["C03","C07","C10","C13","C15","C19"], "kind_free_text": "black-box runs of the CLI rebuilt from /repo in generated project directories; observes exit status, stdout/stderr, trace files, argv dumps"},
   {"name": "E3 fphist", "path": "harness/cmd/box", "serves_properties": ["C04","C05","C12"], "kind_free_text": "random histories of file operations and CLI invocations checked by a state-machine monitor; SIGKILL at every command boundary via verifhook"},
   {"name": "E4 remote", "path": "harness/cmd/box", "serves_properties": ["C20"], "kind_free_text": "E2 plus an in-harness HTTP server whose content version and failure mode the history controls"},
   {"name": "E5 detload", "path": "harness/cmd/box", "serves_properties": ["C08","C09"], "kind_free_text": "in-process repeated Setup/compile of generated include trees; canonical dumps compared; reader completion orders enumerated via verifhook"},
   {"name": "E6 race", "path": "harness/race", "serves_properties": ["C18","C11"], "kind_free_text": "generated concurrent workloads free-running under the Go race detector; logs parsed, filtered, deduplicated"},
   {"name": "E7 fuzz", "path": "harness/cmd/box", "serves_properties": ["C16"], "kind_free_text": "structure-aware and byte-level mutation of Taskfiles; journaled child processes and the CLI; crash/exit-code/CPU monitor"},
 ],
 "checks": [],
 "not_applicable": [],
 "notes": "All checks are run through bin/check <id> <tier>; VERIF_SEED seeds every PRNG. See DESIGN.md.",
}
for pid in props:
    if pid in checks:
        c = checks[pid]
        m["checks"].append({
          "property_id": pid,
          "quick_cmd": f"bin/check {pid} quick",
          "thorough_cmd": f"bin/check {pid} thorough",
          "evidence_file": f"/verif/evidence/{pid}.json",
          "replay_cmd_template": "bin/replay {path}",
          "engine": c["engine"],
          "level_claimed": {"category": c["level"], "text": c["text"], "design_ref": c["design"]},
          "level_note": notes[pid],
          "technique": c["technique"],
        })
    else:
        m["not_applicable"].append({"property_id": pid, "reason": NA.get(pid, "check not built yet in this round (planned, see DESIGN.md §4); nothing is claimed for it")})
json.dump(m, open(os.path.join(HERE, "MANIFEST.json"), "w"), indent=1)
print("checks:", [c["property_id"] for c in m["checks"]], "not_applicable:", [n["property_id"] for n in m["not_applicable"]])
