#!/usr/bin/env python3
"""Imports seeded changes (written by fresh sub-agents from the property text alone) into /verif/seeded/<ID>-<n>/,
adding what this harness observed (confirmation in a scratch worktree, and which checks reported a violation).
usage: tools/seeded_import.py <log>...   (logs written by /tmp/seedrun.sh; later logs override earlier ones)"""
import json, os, re, shutil, sys
import os as _os
SRC = _os.environ.get("SEEDSRC", "/tmp/wt/out"); DST = "/verif/seeded"; TAG = _os.environ.get("SEEDTAG", "")
res = {}
for log in sys.argv[1:]:
    cur = None
    for line in open(log, errors="replace"):
        line = line.rstrip("\n")
        m = re.match(r"##### (C\d\d)/(\d)", line)
        if m:
            cur = (m.group(1), m.group(2)); res.setdefault(cur, {"confirm": None, "checks": {}}); res[cur]["_new_confirm"] = True; continue
        if cur is None: continue
        r = res[cur]
        if line.startswith("CONFIRMED"): r["confirm"] = "confirmed: builds, the pinned suite passes with the change, the demonstration fails with it and passes without it"
        elif line.startswith("NOT CONFIRMED"): r["confirm"] = "not confirmed by tools/seeded.sh: " + line
        elif "PATCH DOES NOT APPLY" in line and r["confirm"] is None: r["confirm"] = "patch does not apply to the current HEAD"
        m = re.match(r"check (C\d\d) exit=(\d+) violations=(\d+)", line)
        if m:
            last = m.group(1); r["checks"][last] = {"exit": int(m.group(2)), "violations": int(m.group(3)), "signatures": []}; continue
        m = re.match(r"\s+signature: (.*)", line)
        if m and r["checks"]:
            r["checks"][last]["signatures"].append(m.group(1))
os.makedirs(DST, exist_ok=True)
rows = []
for (pid, n), r in sorted(res.items()):
    src = os.path.join(SRC, pid, n)
    if not os.path.isdir(src): continue
    dst = os.path.join(DST, "%s-%s%s" % (pid, TAG, n))
    shutil.rmtree(dst, ignore_errors=True); os.makedirs(dst)
    for f in os.listdir(src):
        p = os.path.join(src, f)
        if f in ("suite.log",) or f.startswith("task-") or f == "bin": continue
        if os.path.isdir(p): shutil.copytree(p, os.path.join(dst, f))
        elif os.path.getsize(p) < 200000: shutil.copy(p, dst)
    meta = {}
    try: meta = json.load(open(os.path.join(src, "meta.json")))
    except Exception as e: meta = {"property": pid, "summary": "(meta.json of the sub-agent unreadable: %s)" % e}
    caught = sorted(c for c, v in r["checks"].items() if v["exit"] == 1 and v["violations"] > 0)
    meta["harness"] = {"confirmation": r["confirm"], "checks_run_quick_seed1": r["checks"], "caught_by": caught,
                       "how": "tools/seeded.sh confirm <dir>; tools/seeded.sh check <dir> <ids> (scratch worktree of /repo HEAD + the patch, VERIF_REPO)",
                       "patch_used": "patch.adapted.diff (same change re-created by hand on the later HEAD)" if os.path.exists(os.path.join(src, "patch.adapted.diff")) else "patch.diff"}
    json.dump(meta, open(os.path.join(dst, "meta.json"), "w"), indent=1)
    rows.append((pid, n, meta.get("summary", "")[:160], r["confirm"] or "?", ",".join(caught) or "MISSED", ",".join(sorted(r["checks"]))))
with open(os.path.join(DST, "RESULTS%s.md" % ("-" + TAG.strip("-") if TAG else "")), "w") as f:
    f.write("# Seeded changes (written by fresh sub-agents from the property text alone)\n\n| id | change | confirmed | checks run | caught by |\n|---|---|---|---|---|\n")
    for pid, n, summ, conf, caught, ran in rows:
        f.write("| %s-%s%s | %s | %s | %s | %s |\n" % (pid, TAG, n, summ.replace("|", "/"), "yes" if conf.startswith("confirmed") else conf[:60], ran, caught))
print(len(rows), "imported;", sum(1 for r in rows if r[4] == "MISSED"), "missed")
