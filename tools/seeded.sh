#!/bin/bash
# usage: tools/seeded.sh confirm <dir>            — confirm a seeded change in a scratch worktree: builds, suite passes,
#                                                    demonstration fails with it and passes without it
#        tools/seeded.sh check   <dir> <ID>...    — apply the change to /repo, run the given checks (quick), undo it
# <dir> holds patch.diff, meta.json and demo_test.go / demo.sh (+ demo_testdata/).
set -u
export GOFLAGS=-mod=mod GOPROXY=off GOSUMDB=off GOTOOLCHAIN=local
MODE="$1"; D="$(cd "$2" && pwd)"; shift 2
# a patch re-created by hand on a later HEAD (same change, new context) takes precedence
PATCH="$D/patch.diff"; [ -f "$D/patch.adapted.diff" ] && PATCH="$D/patch.adapted.diff"
case "$MODE" in
confirm)
  WT=$(mktemp -d /tmp/seedwt-XXXXXX); rmdir "$WT"
  git -C /repo worktree add -q --detach "$WT" HEAD || exit 2
  trap 'git -C /repo worktree remove --force "$WT"' EXIT
  run_demo() { # $1 = label
    if [ -f "$D/demo.sh" ]; then
      ( cd "$WT" && go build -o "$WT/task.bin" ./cmd/task ) || return 3
      ( cd "$WT" && bash "$D/demo.sh" "$WT/task.bin" ) > "$WT/demo.$1.log" 2>&1; echo $?
    else
      pkgdir=$(python3 -c "import json;print(json.load(open('$D/meta.json')).get('demo_pkg','.'))" 2>/dev/null || echo .)
      cp "$D"/demo*_test.go "$WT/$pkgdir/" 2>/dev/null
      [ -d "$D/demo_testdata" ] && mkdir -p "$WT/$pkgdir/testdata" && cp -r "$D/demo_testdata/." "$WT/$pkgdir/testdata/" && cp -r "$D/demo_testdata" "$WT/$pkgdir/demo_testdata"
      pat=$(grep -ho 'func Test[A-Za-z0-9_]*' "$D"/demo*_test.go | sed 's/func //' | paste -sd'|')
      RACE=""; CGO=0; grep -q -- '-race' "$D/meta.json" 2>/dev/null && RACE="-race" && CGO=1
      ( cd "$WT/$pkgdir" && CGO_ENABLED=$CGO go test $RACE -vet=off -count=1 -run "^($pat)\$" . ) > "$WT/demo.$1.log" 2>&1; echo $?
    fi
  }
  echo "== without the change"; r0=$(run_demo without); echo "demo exit: $r0"; tail -3 "$WT/demo.without.log"
  ( cd "$WT" && git checkout -q -- . && git clean -fdq )
  ( cd "$WT" && { git apply "$PATCH" 2>/dev/null || git apply -3 "$PATCH"; } ) || { echo "PATCH DOES NOT APPLY"; exit 2; }
  ( cd "$WT" && go build ./... ) || { echo "DOES NOT COMPILE"; exit 2; }
  echo "== suite with the change"; ( cd "$WT" && go test -vet=off -count=1 ./... 2>&1 | grep -v 'no test files' | grep -v '^ok' ); echo "suite done (no output above = all ok)"
  echo "== with the change"; r1=$(run_demo with); echo "demo exit: $r1"; tail -5 "$WT/demo.with.log"
  if [ "$r0" = "0" ] && [ "$r1" != "0" ]; then echo "CONFIRMED"; else echo "NOT CONFIRMED (without=$r0 with=$r1)"; exit 1; fi
  ;;
check)
  # default: a scratch copy of /repo's HEAD with the change applied (VERIF_REPO); with INPLACE=1 the change is applied
  # to /repo itself and undone afterwards
  if [ "${INPLACE:-0}" = "1" ]; then
    git -C /repo diff --quiet || { echo "/repo has uncommitted changes"; exit 2; }
    git -C /repo apply "$D/patch.diff" || { echo "PATCH DOES NOT APPLY to /repo"; exit 2; }
    trap 'git -C /repo checkout -- . ; git -C /repo clean -fdq' EXIT
  else
    WT=$(mktemp -d /tmp/seedrepo-XXXXXX); rmdir "$WT"
    git -C /repo worktree add -q --detach "$WT" HEAD || exit 2
    trap 'git -C /repo worktree remove --force "$WT"' EXIT
    ( cd "$WT" && { git apply "$PATCH" 2>/dev/null || git apply -3 "$PATCH"; } ) || { echo "PATCH DOES NOT APPLY"; exit 2; }
    export VERIF_REPO="$WT"
  fi
  for id in "$@"; do
    out=$(cd /verif && bin/check "$id" quick 2>&1); rc=$?
    echo "check $id exit=$rc violations=$(echo "$out" | grep -c '^VIOLATION')"
    echo "$out" | grep 'signature:' | head -6
  done
  ;;
esac
