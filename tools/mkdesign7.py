#!/usr/bin/env python3
"""Regenerates the disposition table of DESIGN.md §7 from known_findings.json."""
import json, os, re, subprocess
HERE = os.path.dirname(os.path.dirname(os.path.abspath(__file__)))
d = json.load(open(os.path.join(HERE, "known_findings.json")))
log = dict(l.split(" ", 1) for l in subprocess.run(["git", "-C", "/repo", "log", "--format=%h %s"], capture_output=True, text=True).stdout.strip().split("\n"))
rows = []
seen = set()
for f in d["findings"]:
    if f["status"] == "fixed":
        key = (f["commit"])
        props = sorted({g["property"] for g in d["findings"] if g["status"] == "fixed" and g["commit"] == f["commit"]})
        if key in seen:
            continue
        seen.add(key)
        what = f["what"].replace("|", "\\|")
        rows.append("| %s | repaired: `%s` %s | %s |" % (", ".join(props), f["commit"], log.get(f["commit"], "").replace("|", "\\|"), what))
known = {}
for f in d["findings"]:
    if f["status"] == "known":
        known.setdefault((f["property"], f["what"]), []).append(f["signature"])
for (p, what), sigs in known.items():
    rows.append("| %s | **known finding** (%d signature%s, e.g. `%s`) | %s |" % (p, len(sigs), "s" if len(sigs) > 1 else "", sigs[0].replace("|", "\\|"), what.replace("|", "\\|")))
table = "| property | disposition | what failed (witness) |\n|---|---|---|\n" + "\n".join(rows) + "\n"
p = os.path.join(HERE, "DESIGN.md")
s = open(p).read()
a, b = "<!-- BEGIN DISPOSITIONS -->", "<!-- END DISPOSITIONS -->"
s = s[:s.index(a) + len(a)] + "\n" + table + s[s.index(b):]
open(p, "w").write(s)
print(len(rows), "rows")
