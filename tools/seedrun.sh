#!/bin/bash
# usage: tools/seedrun.sh <srcdir> <ID>...   — for every <srcdir>/<ID>/<n>: confirm in a scratch worktree, then run the
# property's own quick check against a scratch copy with the change applied. Output is the log tools/seeded_import.py reads.
SRC="$1"; shift
for id in "$@"; do
  for n in 1 2; do
    d="$SRC/$id/$n"; [ -f "$d/patch.diff" ] || continue
    echo "##### $id/$n"
    [ "${SKIP_CONFIRM:-0}" = 1 ] || /verif/tools/seeded.sh confirm "$d" 2>&1 | tail -12
    /verif/tools/seeded.sh check "$d" $id ${EXTRA_IDS:-} 2>&1 | grep -v '^  observed'
  done
done
